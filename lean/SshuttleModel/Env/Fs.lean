/-
Environment model for the hosts file (DESIGN §1 item 4): a directory (path → inode number),
inodes (content + owner/mode), hard links as two names for one inode, `rename` replacing a
directory entry in one step.  A *crash* stops the process after `k` operations and loses
nothing already done (`runK`).  Two instances are two resumptions advanced in the order a
schedule dictates (`interleave`).  A *fault* makes one operation fail with `OSError` without
touching the file system.  Modelled, not verified.  Core Lean only.
-/
import SshuttleModel.Code.Hosts

namespace Sshuttle.Hosts

structure Inode where
  data : Text
  perm : Meta
deriving Repr

structure Fs where
  dir  : Path → Option Nat
  ino  : Nat → Inode
  next : Nat          -- first unused inode number

/-- owner/mode of a newly created file (process is root; `0o666 & ~umask`): never observed on
the hosts path, which gets its owner/mode from `chown`/`chmod`. -/
def newPerm : Meta := ⟨0, 0, 420⟩

/-- file-type bits of `st_mode` for a regular file; `Meta.mode` of an inode holds the permission bits only -/
def S_IFREG : Nat := 32768

def Fs.empty : Fs := ⟨fun _ => none, fun _ => ⟨[], newPerm⟩, 0⟩

def Fs.setDir (fs : Fs) (p : Path) (v : Option Nat) : Fs :=
  { fs with dir := fun q => if q = p then v else fs.dir q }

def Fs.setIno (fs : Fs) (i : Nat) (n : Inode) : Fs :=
  { fs with ino := fun j => if j = i then n else fs.ino j }

/-- Create `p` with the given content (fresh inode), or replace the content of its inode. -/
def Fs.create (fs : Fs) (p : Path) (data : Text) (perm : Meta) : Fs :=
  { dir := fun q => if q = p then some fs.next else fs.dir q,
    ino := fun j => if j = fs.next then ⟨data, perm⟩ else fs.ino j,
    next := fs.next + 1 }

/-- The content stored under a name (`none` = no such file). -/
def Fs.content (fs : Fs) (p : Path) : Option Text :=
  match fs.dir p with
  | none => none
  | some i => some (fs.ino i).data

def Fs.perm (fs : Fs) (p : Path) : Option Meta :=
  match fs.dir p with
  | none => none
  | some i => some (fs.ino i).perm

/-- One operation: new state and the answer. -/
def Fs.exec (fs : Fs) : Op → Fs × Ans
  | .readFile p =>
    match fs.dir p with
    | none => (fs, .enoent)
    | some i => (fs, .text (normNl (fs.ino i).data))
  | .stat p =>
    match fs.dir p with
    | none => (fs, .enoent)
    | some i => (fs, .info { (fs.ino i).perm with mode := S_IFREG + (fs.ino i).perm.mode })
  | .pexists p => (fs, .bool (fs.dir p).isSome)
  | .link src dst =>
    match fs.dir src, fs.dir dst with
    | none, _ => (fs, .enoent)
    | some _, some _ => (fs, .err)                       -- EEXIST
    | some i, none => (fs.setDir dst (some i), .ok)
  | .copyfile src dst =>
    match fs.dir src with
    | none => (fs, .enoent)
    | some i =>
      match fs.dir dst with
      | none => (fs.create dst (fs.ino i).data newPerm, .ok)
      | some j => if i = j then (fs, .err)               -- SameFileError
                  else (fs.setIno j { fs.ino j with data := (fs.ino i).data }, .ok)
  | .openw p =>
    match fs.dir p with
    | none => (fs.create p [] newPerm, .ok)
    | some i => (fs.setIno i { fs.ino i with data := [] }, .ok)
  | .write p d =>
    match fs.dir p with
    | none => (fs, .enoent)
    | some i => (fs.setIno i { fs.ino i with data := (fs.ino i).data ++ d }, .ok)
  | .close _ => (fs, .ok)
  | .chown p u g =>
    match fs.dir p with
    | none => (fs, .enoent)
    | some i => (fs.setIno i { fs.ino i with perm := { (fs.ino i).perm with uid := u, gid := g } }, .ok)
  | .chmod p m =>
    match fs.dir p with
    | none => (fs, .enoent)
    | some i => (fs.setIno i { fs.ino i with perm := { (fs.ino i).perm with mode := m % 4096 } }, .ok)
  | .rename src dst =>
    match fs.dir src with
    | none => (fs, .enoent)
    | some i =>
      if fs.dir dst = some i then (fs, .ok)              -- POSIX: two names of one file → no-op
      else ((fs.setDir dst (some i)).setDir src none, .ok)
  | .move src dst =>
    match fs.dir src with
    | none => (fs, .enoent)
    | some i =>
      if fs.dir dst = some i then (fs, .ok)
      else ((fs.setDir dst (some i)).setDir src none, .ok)

/-- Faults: the set of operation indices (0-based, per run) at which the environment refuses
with `OSError` (nothing happens), or — for a `readFile` — reports undecodable bytes. -/
structure Faults where
  errAt : List Nat := []
  undecodableAt : List Nat := []

def Fs.execF (fs : Fs) (f : Faults) (idx : Nat) (op : Op) : Fs × Ans :=
  if f.undecodableAt.contains idx then (fs, .undecodable)
  else if f.errAt.contains idx then (fs, .err)
  else fs.exec op

inductive Outcome
  | done
  | raised (e : Exc)
  | crashed            -- stopped with operations still to do
deriving DecidableEq, Repr

structure Run where
  fs : Fs
  trace : List (Op × Ans × Fs)   -- operations performed, oldest first, with the state after each
  out : Outcome

/-- Run at most `k` operations of `p` (operation indices start at `idx`). -/
def runK (f : Faults) : Nat → Nat → Proc → Fs → List (Op × Ans × Fs) → Run
  | _, _, .done, fs, tr => ⟨fs, tr.reverse, .done⟩
  | _, _, .raised e, fs, tr => ⟨fs, tr.reverse, .raised e⟩
  | 0, _, .step _ _, fs, tr => ⟨fs, tr.reverse, .crashed⟩
  | k + 1, idx, .step op cont, fs, tr =>
    let r := fs.execF f idx op
    runK f k (idx + 1) (cont r.2) r.1 ((op, r.2, r.1) :: tr)

/-- Number of operations `p` performs when run to the end from `fs`. -/
def opCount (f : Faults) : Nat → Proc → Fs → Nat
  | _, .done, _ => 0
  | _, .raised _, _ => 0
  | idx, .step op cont, fs =>
    let r := fs.execF f idx op
    opCount f (idx + 1) (cont r.2) r.1 + 1

/-- Run to completion (no crash): fault-free unless `f` says otherwise. -/
def runAll (f : Faults) (p : Proc) (fs : Fs) : Run :=
  runK f (opCount f 0 p fs) 0 p fs []

/-- Final file system of a fault-free complete run. -/
def finish : Proc → Fs → Fs
  | .done, fs => fs
  | .raised _, fs => fs
  | .step op cont, fs => finish (cont (fs.exec op).2) (fs.exec op).1

/-- File system after the first `k` operations of a fault-free run (crash point `k`). -/
def after : Nat → Proc → Fs → Fs
  | _, .done, fs => fs
  | _, .raised _, fs => fs
  | 0, .step _ _, fs => fs
  | k + 1, .step op cont, fs => after k (cont (fs.exec op).2) (fs.exec op).1

/-- Two instances sharing one file system. -/
structure Duo where
  a : Proc
  b : Proc
  fs : Fs

/-- One scheduling decision: `true` advances `a` by one operation, `false` advances `b`
(a finished instance ignores its turn). -/
def Duo.step (d : Duo) (turnA : Bool) : Duo :=
  if turnA then
    match d.a with
    | .step op cont => { d with a := cont (d.fs.exec op).2, fs := (d.fs.exec op).1 }
    | _ => d
  else
    match d.b with
    | .step op cont => { d with b := cont (d.fs.exec op).2, fs := (d.fs.exec op).1 }
    | _ => d

/-- Follow a schedule. -/
def interleave (s : List Bool) (d : Duo) : Duo := s.foldl Duo.step d

/-- Let both instances run to their end (`a` first), whatever is left of them. -/
def Duo.finish (d : Duo) : Fs := Sshuttle.Hosts.finish d.b (Sshuttle.Hosts.finish d.a d.fs)

end Sshuttle.Hosts
