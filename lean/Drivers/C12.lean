import SshuttleModel.Code.ClientMain
import SshuttleModel.Spec.ClientTrace
open Sshuttle Sshuttle.ClientMain

/-! Line protocol
`run d=0 u=1 l=1 a=0 seed=N inc=1 exc=1 ns=0 hs=<hex>,<hex> p0=N line=<hex> hp=N wt=0 end=kbint steps=<alive>/<arrive>/<grant>/<acc>;… faults=<idx>:<kind>,…`
  → one line: the trace of the model (markers included, `hsok` left out) and the outcome.
`mon <event> <event> …` → verdict of the specification monitor on a trace (of the real code). -/

def showFw : FwLine → String
  | .routes => "fwROUTES" | .route => "fwroute" | .nslist => "fwNSLIST" | .ns => "fwns"
  | .ports => "fwPORTS" | .go => "fwGO" | .host => "fwHOST"

def showEv : Ev → String
  | .connect => "connect" | .hsRead => "hsread" | .poll => "poll" | .outFlush => "outflush"
  | .daemonize => "daemonize" | .addHandler k => s!"addh{k}" | .kill => "kill" | .run i => s!"run{i}"
  | .sel => "sel" | .selMux => "selmux" | .muxRead => "mread" | .muxWrite => "mwrite"
  | .accept => "accept" | .routes => "routes" | .fw l => showFw l | .fwFlush => "fwflush"
  | .fwReadline => "fwreadline" | .fwPoll => "fwpoll" | .started => "started" | .ready => "ready"
  | .rc0 => "rc0" | .close => "close" | .wait => "wait" | .stop => "stop" | .cleanup => "cleanup"
  | .hsOk _ => "hsok" | .sshDead => "sshdead"

def parseEv (s : String) : Option Ev :=
  let fixed : List (String × Ev) :=
    [("connect", .connect), ("hsread", .hsRead), ("poll", .poll), ("outflush", .outFlush),
     ("daemonize", .daemonize), ("kill", .kill), ("sel", .sel), ("selmux", .selMux),
     ("mread", .muxRead), ("mwrite", .muxWrite), ("accept", .accept), ("routes", .routes),
     ("fwROUTES", .fw .routes), ("fwroute", .fw .route), ("fwNSLIST", .fw .nslist), ("fwns", .fw .ns),
     ("fwPORTS", .fw .ports), ("fwGO", .fw .go), ("fwHOST", .fw .host), ("fwflush", .fwFlush),
     ("fwreadline", .fwReadline), ("fwpoll", .fwPoll), ("started", .started), ("ready", .ready),
     ("rc0", .rc0), ("close", .close), ("wait", .wait), ("stop", .stop), ("cleanup", .cleanup),
     ("hsok", .hsOk Handshake.expected), ("sshdead", .sshDead)]
  match fixed.lookup s with
  | some e => some e
  | none =>
    if s.startsWith "run" then (s.drop 3).toString.toNat?.map .run
    else if s.startsWith "addh" then (s.drop 4).toString.toNat?.map .addHandler
    else none

def showExc : Exc → String
  | .fatal => "fatal" | .oserr n => s!"os{n}" | .kbint => "kbint" | .sysexit => "sysexit"
  | .assertion => "assert" | .other => "other"

def parseExc (s : String) : Option Exc :=
  match s with
  | "fatal" => some .fatal | "kbint" => some .kbint | "sysexit" => some .sysexit
  | "assert" => some .assertion | "other" => some .other
  | _ => if s.startsWith "os" then (s.drop 2).toString.toNat?.map .oserr else none

def optNat (s : String) : Option (Option Nat) :=
  if s == "N" then some none else s.toNat?.map some

def parseStep (s : String) : Option Step :=
  match s.splitOn "/" with
  | [al, ar, gr, ac] => do
    let alive ← optNat al
    let arrive ← (if ar == "N" then some Arrive.nothing else if ar == "E" then some Arrive.eof
                  else (bytesOfHex ar).map Arrive.data)
    let grant ← optNat gr
    pure { alive := alive, arrive := arrive, grant := grant, accept := ac == "1" }
  | _ => none

def parseFaults (s : String) : Option (List (Nat × Exc)) :=
  if s == "-" then some [] else
  (s.splitOn ",").mapM fun it =>
    match it.splitOn ":" with
    | [i, k] => do pure ((← i.toNat?), (← parseExc k))
    | _ => none

def field (kv : List (String × String)) (k : String) : Option String := kv.lookup k

def parseRun (toks : List String) : Option Script := do
  let kv := toks.filterMap fun t =>
    match t.splitOn "=" with
    | [k, v] => some (k, v)
    | _ => none
  let b := fun k => (field kv k).map (· == "1")
  let n := fun k => (field kv k).bind String.toNat?
  let hsS ← field kv "hs"
  let hs ← if hsS == "-" then some [] else (hsS.splitOn ",").mapM bytesOfHex
  let stS ← field kv "steps"
  let steps ← if stS == "-" then some [] else (stS.splitOn ";").mapM parseStep
  let faults ← (field kv "faults").bind parseFaults
  let cfg : Cfg := {
    daemon := (← b "d"), udp := (← b "u"), lat := (← b "l"), auto := (← b "a"),
    seed := (← (field kv "seed").bind optNat), nInc := (← n "inc"), nExc := (← n "exc"), nNs := (← n "ns"),
    hs := hs, poll0 := (← (field kv "p0").bind optNat), line := (← (field kv "line").bind bytesOfHex),
    hpoll := (← (field kv "hp").bind optNat), waitRv := (← n "wt"),
    endExc := (← (field kv "end").bind parseExc) }
  pure { cfg := cfg, steps := steps, faults := fun i => faults.lookup i }

def step (_ : Unit) (line : String) : Unit × List String :=
  match words line with
  | "run" :: toks =>
    match parseRun toks with
    | none => ((), ["bad-op"])
    | some sc =>
      let (r, w) := run sc
      let evs := (w.trace.filter fun e => match e with | .hsOk _ => false | .sshDead => false | _ => true).map showEv
      let out := match r with
        | .ok _ => "ret"
        | .error x => "exc=" ++ showExc x
      ((), [" ".intercalate (evs ++ [out] ++ (if w.unmodelled then ["unmodelled"] else []))])
  | "mon" :: evs =>
    match evs.mapM parseEv with
    | none => ((), ["bad-op"])
    | some t =>
      let m := ClientTrace.monOf t
      ((), [s!"ok={if ClientTrace.okTrace t then 1 else 0} bad={if m.bad then 1 else 0} closed={if m.closed then 1 else 0} starts={m.starts}"])
  | ["#flush"] => ((), [])
  | _ => ((), ["bad-op"])

def main : IO Unit := runDriver step ()
