import SshuttleModel.Code.Mux
import SshuttleModel.Code.Handshake
open Sshuttle Sshuttle.Mux

structure St where
  tx : Tx := {}
  rx : Rx := {}

def lens (l : List Bytes) : String := ",".intercalate (l.map fun b => toString b.length)

def showFrames (fs : List Frame) : String :=
  if fs.isEmpty then "-" else
  ";".intercalate (fs.map fun f => s!"{f.chan}.{f.cmd}.{hexTok f.data}")

def showRx (rx : Rx) : String := s!"want={rx.want} inbuf={rx.inbuf.length}"

def initTx : Tx :=
  match send {} (some 0) Generated.CMD_PING (bytesOfStr Generated.PING_INIT_PAYLOAD) with
  | .ok tx => tx
  | _ => {}

def step (s : St) (line : String) : St × List String :=
  match words line with
  | ["new"] => ({ tx := initTx, rx := {} }, [s!"ok out={lens initTx.outbuf} full={initTx.fullness}"])
  | ["send", c, cmd, hex] =>
    let chan := if c == "N" then none else c.toNat?
    match cmd.toNat?, bytesOfHex hex with
    | some cmd, some data =>
      if c != "N" && chan.isNone then (s, ["bad-op"]) else
      match send s.tx chan cmd data with
      | .ok tx => ({ s with tx := tx }, [s!"ok out={lens tx.outbuf} full={tx.fullness}"])
      | .assertLen => (s, ["assertLen"])
      | .structError => (s, ["structError"])
    | _, _ => (s, ["bad-op"])
  | ["flush", n] =>
    let w : Option Nat := if n == "N" then none else
      match n.toNat?, s.tx.outbuf with
      | some k, b :: _ => some (min k b.length)
      | some k, [] => some k
      | none, _ => none
    let r := flush s.tx w
    ({ s with tx := r.1 }, [s!"wire={hexTok r.2} out={lens r.1.outbuf}"])
  | ["handle", kind, hex] =>
    let rr : Option ReadRes :=
      if kind == "d" then (bytesOfHex hex).map .data
      else if kind == "e" then some .eof
      else if kind == "n" then some .wouldBlock else none
    match rr with
    | none => (s, ["bad-op"])
    | some rr =>
      match handle s.rx rr with
      | .ok fs rx alive => ({ s with rx := rx }, [s!"ok frames={showFrames fs} {showRx rx} alive={if alive then 1 else 0}"])
      | .badMagic fs rx => ({ s with rx := rx }, [s!"badMagic frames={showFrames fs} {showRx rx}"])
      | .structError fs rx => ({ s with rx := rx }, [s!"structError frames={showFrames fs} {showRx rx}"])
      | .typeError => (s, ["typeError"])
  | "hs" :: chunks =>
    match chunks.mapM bytesOfHex with
    | none => (s, ["bad-op"])
    | some cs =>
      match Sshuttle.Handshake.handshake cs with
      | .ok rest => (s, [s!"ok rest={hexTok rest.flatten}"])
      | .fatal got => (s, [s!"fatal got={hexTok got}"])
  | ["#flush"] => (s, [])
  | _ => (s, ["bad-op"])

def main : IO Unit := runDriver step ({} : St)
