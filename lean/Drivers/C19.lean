import SshuttleModel.Code.HostPipeline
open Sshuttle Sshuttle.FwDialogue Sshuttle.HostPipeline

/-! Line protocol of the C19 driver (one answer line per input line):
  `scan-reset`                      empty `hostnames`
  `found <name> <ip>`               `hostwatch.found_host` (code points `e` | `c1_c2_…`)
  `hw-reset`                        `hw.leftover = b''`
  `ready <hex>`                     `hostwatch_ready` with that `recv` result
  `hostlist <hex>`                  client `onhostlist`
  `hostsfile <port> <hex>`          helper `HOST` loop on that stream + marked lines after each update -/

structure St where
  names : HostNames := []
  leftover : Bytes := []

def cps (s : String) : Option Str :=
  if s = "e" then some [] else (s.splitOn "_").mapM String.toNat?

def showEnd : End → String
  | .eof => "eof"
  | .err (.fatal _) => "fatal"
  | .err .valueError => "valueError"
  | .err .unicodeError => "unicodeError"
  | .err .assertion => "assertion"

def showBlocks (port : Nat) (m : List (Str × Str)) : List (Str × Str) → String
  | [] => "."
  | h :: r =>
    let m' := hostmapSet m h.1 h.2
    hexTok (markedLines port m').flatten ++ "|" ++ showBlocks port m' r

def step (s : St) (line : String) : St × List String :=
  match words line with
  | ["scan-reset"] => ({ s with names := [] }, ["ok"])
  | ["found", n, i] =>
    match cps n, cps i with
    | some n, some i =>
      match foundHostTop s.names n i with
      | some (m, out) => ({ s with names := m }, ["out " ++ hexTok out])
      | none => (s, ["recursion"])
    | _, _ => (s, ["bad-op"])
  | ["hw-reset"] => ({ s with leftover := [] }, ["ok"])
  | ["ready", hex] =>
    match bytesOfHex hex with
    | some c =>
      match hostwatchReady s.leftover c with
      | .sent lo p => ({ s with leftover := lo }, [s!"sent leftover={hexTok lo} payload={hexTok p}"])
      | .fatalDied => (s, ["fatalDied"])
      | .assertLen => (s, ["assertLen"])
    | none => (s, ["bad-op"])
  | ["hostlist", hex] =>
    match bytesOfHex hex with
    | some p =>
      match onHostList p with
      | some ls => (s, ["ok " ++ hexTok ls.flatten])
      | none => (s, ["assert"])
    | none => (s, ["bad-op"])
  | ["hostsfile", port, hex] =>
    match port.toNat?, bytesOfHex hex with
    | some port, some b =>
      let r := hostLoop (helperLines b)
      (s, [s!"blocks={showBlocks port [] r.1} end={showEnd r.2}"])
    | _, _ => (s, ["bad-op"])
  | ["#flush"] => (s, [])
  | _ => (s, ["bad-op"])

def main : IO Unit := runDriver step ({} : St)
