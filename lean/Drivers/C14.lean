import SshuttleModel.Code.Hosts
import SshuttleModel.Env.Fs
import SshuttleModel.Spec.HostsFile
open Sshuttle Sshuttle.Hosts

/-! Line protocol for C14 (one input line → one output line).  Text travels as the hex of its
UTF-8 encoding (`-` = empty, `N` = no such file); the model itself works on code points. -/

def textOfHex (s : String) : Option Text :=
  match bytesOfHex s with
  | none => none
  | some bs =>
    match String.fromUTF8? (ByteArray.mk (bs.map UInt8.ofNat).toArray) with
    | none => none
    | some str => some (str.toList.map Char.toNat)

def hexOfText (t : Text) : String :=
  hexTok ((String.ofList (t.map Char.ofNat)).toUTF8.toList.map UInt8.toNat)

def optText (s : String) : Option (Option Text) :=
  if s == "N" then some none else (textOfHex s).map some

def showOpt (c : Option Text) : String :=
  match c with
  | none => "N"
  | some t => hexOfText t

def natList (s : String) : Option (List Nat) :=
  if s == "-" then some [] else (s.splitOn ",").mapM String.toNat?

def parseHm (s : String) : Option HostMap :=
  if s == "-" then some [] else
  (s.splitOn ",").mapM fun e =>
    match e.splitOn ":" with
    | [n, i] => match textOfHex n, textOfHex i with
      | some n, some i => some (n, i)
      | _, _ => none
    | _ => none

def showHm (hm : HostMap) : String :=
  if hm.isEmpty then "-" else ",".intercalate (hm.map fun e => s!"{hexOfText e.1}:{hexOfText e.2}")

def showPath : Path → String
  | .hosts => "H"
  | .bak => "B"
  | .tmp p => s!"T{p}"

def showOp : Op → String
  | .readFile p => s!"read {showPath p}"
  | .stat p => s!"stat {showPath p}"
  | .pexists p => s!"exists {showPath p}"
  | .link a b => s!"link {showPath a} {showPath b}"
  | .copyfile a b => s!"copy {showPath a} {showPath b}"
  | .openw p => s!"openw {showPath p}"
  | .write p d => s!"write {showPath p} {hexOfText d}"
  | .close p => s!"close {showPath p}"
  | .chown p u g => s!"chown {showPath p} {u} {g}"
  | .chmod p m => s!"chmod {showPath p} {m}"
  | .rename a b => s!"rename {showPath a} {showPath b}"
  | .move a b => s!"move {showPath a} {showPath b}"

def showAns : Ans → String
  | .ok => "ok"
  | .enoent => "enoent"
  | .err => "err"
  | .undecodable => "undec"
  | .text t => s!"text:{hexOfText t}"
  | .info m => s!"info:{m.uid}.{m.gid}.{m.mode}"
  | .bool b => if b then "true" else "false"

def showExc : Exc → String
  | .osError s => s!"raised:osError:{s}"
  | .unicodeDecode => "raised:unicodeDecode"
  | .protocol => "raised:protocol"

def showOutcome : Outcome → String
  | .done => "done"
  | .raised e => showExc e
  | .crashed => "crashed"

def procOutcome : Proc → String
  | .done => "done"
  | .raised e => showExc e
  | .step _ _ => "crashed"

structure Snap where
  h : Option Text
  b : Option Text
deriving BEq

def snapOf (fs : Fs) : Snap := ⟨fs.content .hosts, fs.content .bak⟩

def showDelta (prev : Snap) (fs : Fs) (port : Nat) : String :=
  let cur := snapOf fs
  let h := if cur.h == prev.h then "=" else showOpt cur.h
  let b := if cur.b == prev.b then "=" else showOpt cur.b
  let t := match fs.content (.tmp port) with
    | none => "N"
    | some d => toString d.length
  s!"h={h} b={b} t={t}"

def showMode (fs : Fs) : String :=
  match fs.perm .hosts with
  | none => "N"
  | some m => toString (m.mode % 4096)

def showTrace (fs0 : Fs) (port : Nat) (tr : List (Op × Ans × Fs)) : String :=
  let rec go (prev : Snap) : List (Op × Ans × Fs) → List String
    | [] => []
    | (op, ans, fs) :: rest =>
      s!"{showOp op} -> {showAns ans} ; {showDelta prev fs port}" :: go (snapOf fs) rest
  " | ".intercalate (go (snapOf fs0) tr)

def showFinal (fs : Fs) (ports : List Nat) : String :=
  let tmps := " ".intercalate (ports.map fun p => s!"tmp{p}={showOpt (fs.content (.tmp p))}")
  s!"hosts={showOpt (fs.content .hosts)} bak={showOpt (fs.content .bak)} {tmps} mode={showMode fs}"

def doRun (fs : Fs) (proc : Proc) (port : Nat) (k : Option Nat) (f : Faults) : Fs × String :=
  let n := match k with
    | some k => k
    | none => opCount f 0 proc fs
  let r := runK f n 0 proc fs []
  (r.fs, s!"{showTrace fs port r.trace} || end={showOutcome r.out} {showFinal r.fs [port]}")

def parseK (s : String) : Option (Option Nat) :=
  if s == "A" then some none else s.toNat?.map some

/-- interleaved run, recording every step -/
def duoTrace (pa pb : Nat) : List Bool → Duo → Snap → List String → Duo × List String
  | [], d, _, acc => (d, acc.reverse)
  | t :: s, d, prev, acc =>
    let cur := if t then d.a else d.b
    match cur with
    | .step op _ =>
      let ans := (d.fs.exec op).2
      let d' := d.step t
      let tag := if t then "a" else "b"
      let line := s!"{tag}:{showOp op} -> {showAns ans} ; {showDelta prev d'.fs (if t then pa else pb)}"
      duoTrace pa pb s d' (snapOf d'.fs) (line :: acc)
    | _ => duoTrace pa pb s d prev acc

def mkProc (kind : String) (hm : HostMap) (port : Nat) : Option Proc :=
  if kind == "w" then some (rewrite hm port)
  else if kind == "r" then some (restore hm port)
  else none

def step (fs : Fs) (line : String) : Fs × List String :=
  match words line with
  | ["fs", h, b, mode, uid, gid] =>
    match optText h, optText b, mode.toNat?, uid.toNat?, gid.toNat? with
    | some h, some b, some mode, some uid, some gid =>
      let fs0 := Fs.empty
      let fs1 := match h with
        | none => fs0
        | some t => fs0.create .hosts t ⟨uid, gid, mode⟩
      let fs2 := match b with
        | none => fs1
        | some t => fs1.create .bak t newPerm
      (fs2, ["ok"])
    | _, _, _, _, _ => (fs, ["bad-op"])
  | ["tmp", port, hex] =>
    match port.toNat?, textOfHex hex with
    | some p, some t => (fs.create (.tmp p) t newPerm, ["ok"])
    | _, _ => (fs, ["bad-op"])
  | [kind, port, k, errs, undecs, hm] =>
    match port.toNat?, parseK k, natList errs, natList undecs, parseHm hm with
    | some port, some k, some errs, some undecs, some hm =>
      match mkProc kind hm port with
      | some proc =>
        let (fs', out) := doRun fs proc port k ⟨errs, undecs⟩
        (fs', [out])
      | none => (fs, ["bad-op"])
    | _, _, _, _, _ => (fs, ["bad-op"])
  | ["inter", pa, ka, hma, pb, kb, hmb, sched] =>
    match pa.toNat?, parseHm hma, pb.toNat?, parseHm hmb with
    | some pa, some hma, some pb, some hmb =>
      match mkProc ka hma pa, mkProc kb hmb pb with
      | some a, some b =>
        let s := sched.toList.map (· == 'a')
        let (d, tr) := duoTrace pa pb s ⟨a, b, fs⟩ (snapOf fs) []
        -- consistency of the recorded walk with the definition the theorems are about
        let d2 := interleave s ⟨a, b, fs⟩
        let same := snapOf d2.fs == snapOf d.fs
        (d.fs, [s!"{" | ".intercalate tr} || end={procOutcome d.a},{procOutcome d.b} {showFinal d.fs [pa, pb]} same={same}"])
      | _, _ => (fs, ["bad-op"])
    | _, _, _, _ => (fs, ["bad-op"])
  | ["lib", "rstrip", t] =>
    match textOfHex t with
    | some t => (fs, [hexOfText (rstrip t)])
    | none => (fs, ["bad-op"])
  | ["lib", "nonblank", t] =>
    match textOfHex t with
    | some t => (fs, [if nonBlank t then "1" else "0"])
    | none => (fs, ["bad-op"])
  | ["lib", "split", t] =>
    match textOfHex t with
    | some t => (fs, [",".intercalate ((splitNl t).map hexOfText)])
    | none => (fs, ["bad-op"])
  | ["lib", "normnl", t] =>
    match textOfHex t with
    | some t => (fs, [hexOfText (normNl t)])
    | none => (fs, ["bad-op"])
  | ["lib", "find", p, t] =>
    match textOfHex p, textOfHex t with
    | some p, some t => (fs, [if hasSub p t then "1" else "0"])
    | _, _ => (fs, ["bad-op"])
  | ["lib", "lines", t] =>
    match optText t with
    | some c => (fs, [",".intercalate ((lines c).map hexOfText)])
    | none => (fs, ["bad-op"])
  | ["lib", "hostlines", port, hm] =>
    match port.toNat?, parseHm hm with
    | some p, some hm => (fs, [",".intercalate ((hostLines p hm).map hexOfText)])
    | _, _ => (fs, ["bad-op"])
  | ["lib", "marker", port] =>
    match port.toNat? with
    | some p => (fs, [hexOfText (marker p)])
    | none => (fs, ["bad-op"])
  | "lib" :: "sethost" :: hm :: upds =>
    match parseHm hm, parseHm (if upds.isEmpty then "-" else ",".intercalate upds) with
    | some hm, some us => (fs, [showHm (us.foldl (fun m e => setHost m e.1 e.2) hm)])
    | _, _ => (fs, ["bad-op"])
  | ["lib", "isspace", cps] =>
    match natList cps with
    | some cs => (fs, [String.ofList (cs.map fun c => if isSpace c then '1' else '0')])
    | none => (fs, ["bad-op"])
  | ["#flush"] => (fs, [])
  | _ => (fs, ["bad-op"])

def main : IO Unit := runDriver step Fs.empty
