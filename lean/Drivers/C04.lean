import SshuttleModel.Basic
import SshuttleModel.Code.FwSession
import SshuttleModel.Spec.FwOwned
open Sshuttle Sshuttle.Fw

/-! Line protocol (one input line → one output line):

  reset                       builtin chains only, pf defaults, no faults
  pfinit <en> <skip> <loaded> set pf's initial flags (0/1 each)
  fault k1 k2 …               fault schedule (indices counted from now); resets counter and log
  x <hex argv…>               run one external command given as argv → `rc=<n> out=<hex> err=<hex>`
  xf <hex argv…>              same for a foreign command: outside the fault schedule, counter and log
  xin <hex stdin> <hex argv…> same, with standard input (pfctl -f /dev/stdin)
  state                       canonical text of the configuration
  trace                       commands since the last `fault`, with outcome
  fresh <port>                1/0
  session <method> <cfg…>     run the code model of firewall.main from the current state
-/

structure St where
  env : Env
  pfinit : PfState := {}

def builtinChains (t : Tbl) : List String :=
  match t with
  | .nat => ["PREROUTING", "INPUT", "OUTPUT", "POSTROUTING"]
  | .mangle => ["PREROUTING", "INPUT", "FORWARD", "OUTPUT", "POSTROUTING"]
  | .filter => ["INPUT", "FORWARD", "OUTPUT"]
  | .raw => ["PREROUTING", "OUTPUT"]
  | .security => ["INPUT", "FORWARD", "OUTPUT"]

def initState (pf : PfState) : FwState where
  ipt := fun _ t => (builtinChains t).map fun n => ⟨.builtin n, []⟩
  nft := []
  pf := pf

def initSt : St := { env := { st := initState {} } }

/-! ### rendering -/

def showKind : Kind → String
  | .main => "" | .mark => "m-" | .tproxy => "t-" | .divert => "d-"

def showCName : CName → String
  | .builtin s => s
  | .own k p => "sshuttle-" ++ showKind k ++ toString p
  | .user s => s

def showTgt : Tgt → String
  | .none => "-"
  | .std s => "S." ++ s
  | .chain c => "C." ++ showCName c

def hexStr (s : String) : String := hexTok (bytesOfStr s)

def showRule (r : Rule) : String := showTgt r.tgt ++ "/" ++ hexStr (" ".intercalate r.args)

def showChain (ch : Chain) : String :=
  showCName ch.name ++ "=" ++ ",".intercalate (ch.rules.map showRule)

def showTable (t : Table) : String := ";".intercalate (t.map showChain)

def showFam : Fam → String | .v4 => "v4" | .v6 => "v6"
def showTbl : Tbl → String
  | .nat => "nat" | .mangle => "mangle" | .filter => "filter" | .raw => "raw" | .security => "security"

def showNName : NName → String
  | .own f p => nftTableText f p
  | .user s => s

def showNftChain (c : NftChain) : String :=
  c.name ++ "<" ++ hexStr c.spec ++ ">=" ++ ",".intercalate (c.rules.map fun r => hexStr (" ".intercalate r))

def showNft (ts : List NftTable) : String :=
  "+".intercalate (ts.map fun t => showNName t.name ++ "(" ++ ";".intercalate (t.chains.map showNftChain) ++ ")")

def b01 (b : Bool) : String := if b then "1" else "0"

def showPf (p : PfState) : String :=
  s!"en={b01 p.enabled};tok={",".intercalate (p.tokens.map toString)};next={p.nextToken};ld={b01 p.loaded};skip={b01 p.skipLo};main={",".intercalate (p.main.map hexStr)};anch={"+".intercalate (p.anchors.map fun a => anchorText a.1 ++ "=" ++ ",".intercalate (a.2.map hexStr))}"

def allFams : List Fam := [.v4, .v6]
def allTbls : List Tbl := [.nat, .mangle, .filter, .raw, .security]

def showState (s : FwState) : String :=
  " ".intercalate ((allFams.flatMap fun f => allTbls.map fun t =>
      showFam f ++ "." ++ showTbl t ++ "{" ++ showTable (s.ipt f t) ++ "}") ++
    ["nft{" ++ showNft s.nft ++ "}", "pf{" ++ showPf s.pf ++ "}"])

def showIptOp : IptOp → String
  | .newChain c => "-N " ++ showCName c
  | .flush c => "-F " ++ showCName c
  | .delChain c => "-X " ++ showCName c
  | .insert c r => "-I " ++ showCName c ++ " " ++ showRule r
  | .append c r => "-A " ++ showCName c ++ " " ++ showRule r
  | .delete c r => "-D " ++ showCName c ++ " " ++ showRule r

def showNftOp : NftOp → String
  | .addTable n => "add-table " ++ showNName n
  | .deleteTable n => "delete-table " ++ showNName n
  | .addChain n c spec => "add-chain " ++ showNName n ++ " " ++ c ++ " " ++ hexStr spec
  | .flushChain n c => "flush-chain " ++ showNName n ++ " " ++ c
  | .addRule n c r => "add-rule " ++ showNName n ++ " " ++ c ++ " " ++ hexStr (" ".intercalate r)

def showPfOp : PfOp → String
  | .showAll => "show-all"
  | .showLo => "show-lo"
  | .loadMain rules => "load-main " ++ ",".intercalate (rules.map hexStr)
  | .loadAnchor a rules => "load-anchor " ++ anchorText a ++ " " ++ ",".intercalate (rules.map hexStr)
  | .flushAnchor a => "flush-anchor " ++ anchorText a
  | .enable => "enable"
  | .disable => "disable"
  | .enableRef => "enable-ref"
  | .releaseRef t => "release-ref " ++ toString t
  | .addAnchorRef rdr a => "add-anchor-ref " ++ (if rdr then "rdr " else "pass ") ++ anchorText a
  | .kldload => "kldload"
  | .kldunload => "kldunload"

def showCmd : Cmd → String
  | .ipt f t op => "ipt " ++ showFam f ++ " " ++ showTbl t ++ " " ++ showIptOp op
  | .iptList f t => "ipt " ++ showFam f ++ " " ++ showTbl t ++ " -nL"
  | .nft op => "nft " ++ showNftOp op
  | .pf op => "pf " ++ showPfOp op
  | .resolvectl => "resolvectl"

def showTrace (l : List (Cmd × Bool)) : String :=
  if l.isEmpty then "-" else "|".intercalate (l.map fun cb => showCmd cb.1 ++ (if cb.2 then " :ok" else " :fail"))

/-! ### parsing argv -/

def builtinNames : List String := ["PREROUTING", "INPUT", "FORWARD", "OUTPUT", "POSTROUTING"]

def stdTargets : List String :=
  ["ACCEPT", "DROP", "RETURN", "REDIRECT", "MARK", "TPROXY", "DNAT", "SNAT", "MASQUERADE", "LOG",
   "REJECT", "QUEUE", "NFQUEUE", "CT", "NOTRACK", "TOS", "TTL", "CONNMARK"]

def canonNat (s : String) : Option Nat :=
  match s.toNat? with
  | some n => if toString n == s then some n else none
  | none => none

def dropPrefix? (s pre : String) : Option String :=
  if s.startsWith pre then some (s.drop pre.length).toString else none

def parseCName (s : String) : CName :=
  if builtinNames.contains s then .builtin s else
  match dropPrefix? s "sshuttle-" with
  | none => .user s
  | some rest =>
    let try1 (pre : String) (k : Kind) : Option CName :=
      match dropPrefix? rest pre with
      | some d => (canonNat d).map fun p => CName.own k p
      | none => none
    match try1 "m-" .mark, try1 "t-" .tproxy, try1 "d-" .divert, canonNat rest with
    | some c, _, _, _ => c
    | _, some c, _, _ => c
    | _, _, some c, _ => c
    | _, _, _, some p => .own .main p
    | _, _, _, _ => .user s

def parseRule : List String → Rule
  | args =>
    let rec go (pre : List String) : List String → Rule
      | "-j" :: x :: rest =>
        ⟨if stdTargets.contains x then .std x else .chain (parseCName x), pre.reverse ++ rest⟩
      | a :: rest => go (a :: pre) rest
      | [] => ⟨.none, pre.reverse⟩
    go [] args

def parseTbl : String → Option Tbl
  | "nat" => some .nat | "mangle" => some .mangle | "filter" => some .filter
  | "raw" => some .raw | "security" => some .security | _ => none

def parseIpt (f : Fam) : List String → Option Cmd
  | "-w" :: "-t" :: t :: rest =>
    match parseTbl t, rest with
    | some t, ["-nL"] => some (.iptList f t)
    | some t, ["-N", c] => some (.ipt f t (.newChain (parseCName c)))
    | some t, ["-F", c] => some (.ipt f t (.flush (parseCName c)))
    | some t, ["-X", c] => some (.ipt f t (.delChain (parseCName c)))
    | some t, "-I" :: c :: "1" :: r => some (.ipt f t (.insert (parseCName c) (parseRule r)))
    | some t, "-A" :: c :: r => some (.ipt f t (.append (parseCName c) (parseRule r)))
    | some t, "-D" :: c :: r => some (.ipt f t (.delete (parseCName c) (parseRule r)))
    | _, _ => none
  | _ => none

def parseNName (s : String) : NName :=
  let try1 (pre : String) (f : Fam) : Option NName :=
    match dropPrefix? s pre with
    | some d => (canonNat d).map fun p => NName.own f p
    | none => none
  match try1 "sshuttle-ipv4-" .v4, try1 "sshuttle-ipv6-" .v6 with
  | some n, _ => n
  | _, some n => n
  | _, _ => .user s

def parseNft (args : List String) : Option Cmd :=
  match words (" ".intercalate args) with
  | ["add", "table", "inet", t] => some (.nft (.addTable (parseNName t)))
  | ["delete", "table", "inet", t] => some (.nft (.deleteTable (parseNName t)))
  | "add" :: "chain" :: "inet" :: t :: c :: spec => some (.nft (.addChain (parseNName t) c (" ".intercalate spec)))
  | ["flush", "chain", "inet", t, c] => some (.nft (.flushChain (parseNName t) c))
  | "add" :: "rule" :: "inet" :: t :: c :: r => some (.nft (.addRule (parseNName t) c r))
  | _ => none

def parseAName (s : String) : AName :=
  let try1 (pre : String) (f : Fam) : Option AName :=
    match dropPrefix? s pre with
    | some d => (canonNat d).map fun p => AName.own f p
    | none => none
  match try1 "sshuttle6-" .v6, try1 "sshuttle-" .v4 with
  | some n, _ => n
  | _, some n => n
  | _, _ => .user s

def stdinLines (s : String) : List String := (s.splitOn "\n").filter (· ≠ "")

def parsePf (stdin : String) : List String → Option Cmd
  | ["-s", "all"] => some (.pf .showAll)
  | ["-s", "Interfaces", "-i", "lo", "-v"] => some (.pf .showLo)
  | ["-f", "/dev/stdin"] => some (.pf (.loadMain (stdinLines stdin)))
  | ["-a", a, "-f", "/dev/stdin"] => some (.pf (.loadAnchor (parseAName a) (stdinLines stdin)))
  | ["-a", a, "-F", "all"] => some (.pf (.flushAnchor (parseAName a)))
  | ["-e"] => some (.pf .enable)
  | ["-d"] => some (.pf .disable)
  | ["-E"] => some (.pf .enableRef)
  | ["-X", t] => t.toNat?.map fun n => .pf (.releaseRef n)
  | _ => none

def parseArgv (stdin : String) : List String → Option Cmd
  | "iptables" :: rest => parseIpt .v4 rest
  | "ip6tables" :: rest => parseIpt .v6 rest
  | "nft" :: rest => parseNft rest
  | "pfctl" :: rest => parsePf stdin rest
  | ["kldload", "pf"] => some (.pf .kldload)
  | ["kldunload", "pf"] => some (.pf .kldunload)
  | ["ioctl-anchor", "rdr", a] => some (.pf (.addAnchorRef true (parseAName a)))
  | ["ioctl-anchor", "pass", a] => some (.pf (.addAnchorRef false (parseAName a)))
  | ["resolvectl", "flush-caches"] => some .resolvectl
  | _ => none

/-- Standard output / error a successful command prints, as far as sshuttle reads it. -/
def stdoutOf (c : Cmd) (s : FwState) : String × String :=
  match c with
  | .iptList f t =>
    (String.join ((s.ipt f t).map fun ch =>
      "Chain " ++ showCName ch.name ++ " (policy ACCEPT)\n" ++
      String.join (ch.rules.map fun r =>
        (match r.tgt with
         | .none => ""
         | .std x => x
         | .chain c => showCName c) ++ " all -- " ++ " ".intercalate r.args ++ "\n")), "")
  | .pf .showAll =>
    ("FILTER RULES:\n" ++ String.join (s.pf.main.map fun l => l ++ "\n") ++
      "\nINFO:\nStatus: " ++ (if s.pf.enabled then "Enabled" else "Disabled") ++ "\n", "")
  | .pf .showLo => (if s.pf.skipLo then "lo0 (skip)\n" else "lo0\n", "")
  | .pf .enableRef =>
    ("", match s.pf.tokens.getLast? with
         | some t => "pf enabled\nToken : " ++ toString t ++ "\n"
         | none => "")
  | _ => ("", "")

def runArgv (s : St) (stdin : String) (argvHex : List String) : St × List String :=
  match argvHex.mapM bytesOfHex with
  | none => (s, ["bad-op"])
  | some bs =>
    match parseArgv stdin (bs.map strOfBytes) with
    | none => (s, ["unparsed"])
    | some c =>
      let (ok, e1) := exec c s.env
      if ok then
        let (o, er) := stdoutOf c e1.st
        ({ s with env := e1 }, [s!"rc=0 out={hexStr o} err={hexStr er}"])
      else ({ s with env := e1 }, ["rc=1 out=- err=-"])

/-! ### session line -/

def parseKind : String → Option Kind
  | "c" => some .main | "m" => some .mark | "t" => some .tproxy | "d" => some .divert | _ => none

/-- body rule: `<k>.<hex of argv joined by \x1f>`; list separated by `,`; `-` = empty. -/
def splitUnit (s : String) : List String := s.splitOn "\x1f"

def parseBody (s : String) : Option (List (Kind × Rule)) :=
  if s == "-" then some [] else
  (s.splitOn ",").mapM fun item =>
    match item.splitOn "." with
    | [k, h] =>
      match parseKind k, bytesOfHex h with
      | some k, some b => some (k, parseRule (splitUnit (strOfBytes b)))
      | _, _ => none
    | _ => none

def parseNBody (s : String) : Option (List (List String)) :=
  if s == "-" then some [] else
  (s.splitOn ",").mapM fun h => (bytesOfHex h).map fun b => words (strOfBytes b)

def parsePfRules (s : String) : Option (Option (List String)) :=
  if s == "N" then some none
  else if s == "-" then some (some [])
  else ((s.splitOn ",").mapM fun h => (bytesOfHex h).map strOfBytes).map some

def parseFamOpt : String → Option Fam
  | "4" => some .v4 | "6" => some .v6 | _ => none

def optStr (s : String) : Option String := if s == "-" then none else (bytesOfHex s).map strOfBytes

def parseLine (tok : String) : Option Line :=
  match tok.splitOn ":" with
  | ["B"] => some .blank
  | ["R"] => some .routes
  | ["r", f] => some (.route (parseFamOpt f))
  | ["N"] => some .nslist
  | ["n", f] => some (.ns (parseFamOpt f))
  | ["P", a, b] => match a.toNat?, b.toNat? with
    | some a, some b => some (.ports a b)
    | _, _ => none
  | ["G", u, us, gr] => some (.go { udp := u == "1", user := optStr us, group := optStr gr })
  | ["H", n, i] => match (bytesOfHex n).map strOfBytes, (bytesOfHex i).map strOfBytes with
    | some n, some i => some (.host n i)
    | _, _ => none
  | ["Hbad"] => some .hostBad
  | ["M"] => some .malformed
  | ["X"] => some .junk
  | _ => none

def parseMethod : String → Option Method
  | "nat" => some .nat | "tproxy" => some .tproxy | "nft" => some .nft
  | "pf-freebsd" => some (.pf .freebsd) | "pf-openbsd" => some (.pf .openbsd)
  | "pf-darwin" => some (.pf .darwin) | _ => none

def showExit : Exit → String
  | .returned => "returned"
  | .raised .fatal => "fatal"
  | .raised (.internal t) => "internal:" ++ t

def showHosts (h : List (String × String)) : String :=
  if h.isEmpty then "-" else ",".intercalate (h.map fun kv => hexStr kv.1 ++ "=" ++ hexStr kv.2)

/-- `session <method> <resolvectl> <startedFails> <body6> <nbody6> <pf6> <body4> <nbody4> <pf4> <text> <line>…`
`<text>` = the bytes on the control channel (hex); one `<line>` token per chunk of it, in order (the
unfinished last chunk included).  How many of them are lines is decided here by the reader model. -/
def runSession (s : St) : List String → Option (St × List String)
  | m :: rc :: sf :: b6 :: n6 :: p6 :: b4 :: n4 :: p4 :: text :: lines => do
    let raw ← bytesOfHex text
    let nl := (readerLines raw).length
    if nl > lines.length then none
    let lines := lines.take nl
    let m ← parseMethod m
    let b6 ← parseBody b6
    let n6 ← parseNBody n6
    let p6 ← parsePfRules p6
    let b4 ← parseBody b4
    let n4 ← parseNBody n4
    let p4 ← parsePfRules p4
    let d ← lines.mapM parseLine
    let cfg : Config := {
      method := m,
      body6 := { fam := .v6, port := 0, body := b6, nbody := n6, pfRules := p6 },
      body4 := { fam := .v4, port := 0, body := b4, nbody := n4, pfRules := p4 },
      resolvectl := rc == "1", startedFails := sf == "1" }
    let (ex, e1) := session cfg d s.env
    pure ({ s with env := e1 },
      [s!"exit={showExit ex}\thosts={showHosts e1.hosts}\ttrace={showTrace e1.log}\tstate={showState e1.st}"])
  | _ => none

def step (s : St) (line : String) : St × List String :=
  match words line with
  | ["reset"] => ({ s with env := { st := initState s.pfinit } }, ["ok"])
  | ["pfinit", en, sk, ld] =>
    let pf : PfState := { enabled := en == "1", skipLo := sk == "1", loaded := ld == "1" }
    ({ pfinit := pf, env := { st := initState pf } }, ["ok"])
  | "fault" :: ks =>
    match ks.mapM String.toNat? with
    | some ks =>
      ({ s with env := { s.env with count := 0, log := [], fail := fun i => ks.contains i } }, ["ok"])
    | none => (s, ["bad-op"])
  | "x" :: argv => runArgv s "" argv
  | "xf" :: argv =>
    -- a foreign command: natural behaviour, outside the fault schedule, counter and log
    let (s1, out) := runArgv { s with env := { s.env with fail := fun _ => false } } "" argv
    ({ s1 with env := { s1.env with fail := s.env.fail, count := s.env.count, log := s.env.log } }, out)
  | "xin" :: stdin :: argv =>
    match bytesOfHex stdin with
    | some b => runArgv s (strOfBytes b) argv
    | none => (s, ["bad-op"])
  | ["flags"] =>
    -- the source-derived flags this driver was built with (the harness compares them with the tree)
    (s, [" ".intercalate ([
      ("NAT_RESTORE_NONFATAL_MARK", Gen.C04.NAT_RESTORE_NONFATAL_MARK),
      ("NAT_RESTORE_NONFATAL_D_OUTPUT", Gen.C04.NAT_RESTORE_NONFATAL_D_OUTPUT),
      ("NAT_RESTORE_NONFATAL_D_PREROUTING", Gen.C04.NAT_RESTORE_NONFATAL_D_PREROUTING),
      ("NAT_RESTORE_NONFATAL_F", Gen.C04.NAT_RESTORE_NONFATAL_F),
      ("NAT_RESTORE_NONFATAL_X", Gen.C04.NAT_RESTORE_NONFATAL_X),
      ("NAT_SETUP_NONFATAL_MARK", Gen.C04.NAT_SETUP_NONFATAL_MARK),
      ("TPROXY_RESTORE_NONFATAL_D", Gen.C04.TPROXY_RESTORE_NONFATAL_D),
      ("TPROXY_RESTORE_NONFATAL_F", Gen.C04.TPROXY_RESTORE_NONFATAL_F),
      ("TPROXY_RESTORE_NONFATAL_X", Gen.C04.TPROXY_RESTORE_NONFATAL_X),
      ("NFT_RESTORE_NONFATAL", Gen.C04.NFT_RESTORE_NONFATAL),
      ("PF_LOADED_INIT", Gen.C04.PF_LOADED_INIT),
      ("FW_READER_DROPS_UNFINISHED", Gen.C04.FW_READER_DROPS_UNFINISHED)].map fun kv => kv.1 ++ "=" ++ b01 kv.2)])
  | ["state"] => (s, [showState s.env.st])
  | ["trace"] => (s, [showTrace s.env.log])
  | ["hosts"] => (s, [showHosts s.env.hosts])
  | ["fresh", p] =>
    match p.toNat? with
    | some p => (s, [b01 (freshB p s.env.st)])
    | none => (s, ["bad-op"])
  | "session" :: rest =>
    match runSession s rest with
    | some r => r
    | none => (s, ["bad-op"])
  | ["#flush"] => (s, [])
  | _ => (s, ["bad-op"])

def main : IO Unit := runDriver step initSt
