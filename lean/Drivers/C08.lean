import SshuttleModel.Code.Accept
open Sshuttle Sshuttle.Accept

def showOut : AcceptOut → String
  | .created => "created" | .refused => "refused" | .died => "died"

def step (s : Unit) (line : String) : Unit × List String :=
  match words line with
  | ["peername", "none"] => (s, [showOut (peername none)])
  | ["peername", e] =>
    match e.toNat? with
    | some e => (s, [showOut (peername (some e))])
    | none => (s, ["bad-op"])
  | ["accepterr", e, free] =>
    match e.toNat?, free.toNat? with
    | some e, some free =>
      match acceptError e { free := free } with
      | (o, some f) => (s, [s!"{showOut o} free={f.free} extra={if f.extra then 1 else 0} sock={if f.sock then 1 else 0}"])
      | (o, none) => (s, [showOut o])
    | _, _ => (s, ["bad-op"])
  | ["#flush"] => (s, [])
  | _ => (s, ["bad-op"])

def main : IO Unit := runDriver step ()
