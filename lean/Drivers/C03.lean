import SshuttleModel.Code.FwRules
import SshuttleModel.Env.PacketWalk
import SshuttleModel.Spec.MostSpecific
open Sshuttle Sshuttle.Fw

/-!
Line protocol (one answer line per input line):

  setup M FAMILY PORT DNSPORT UDP USER GROUP TMARK NSLIST SUBNETS
      one `setup_firewall` call of method M ∈ nat|nft|tproxy|pf-freebsd|pf-openbsd|pf-darwin
      → `ok <cmd> ;; <cmd> …` (tokens of a command separated by TAB) | `exc TAG` | `internalError TAG`
  plan M PORT6 PORT4 DNS6 DNS4 UDP USER GROUP TMARK NSLIST SUBNETS
      the per-family calls `firewall.main` makes (IPv6 first); remembered for `walk`
      → `ok N` (N commands) | `exc …` | `internalError …`
  walk PKT;PKT;…      PKT = fam6,dst,dport,proto,loc,dstLocal,uid,gid,hasSocket
      → `<verdicts> | <spec>`: the packet walk over the remembered commands, and the spec
  NSLIST = `-` | fam,ip,addr;…      SUBNETS = `-` | fam,width,excl,ip,addr,fport,lport;…
-/

structure St where
  method : String := ""
  plan : Option Plan := none
  cmds : List Cmd := []
  rs : Ruleset := Ruleset.empty

def optStr (s : String) : Option String := if s == "-" then none else some s

def parseNs (s : String) : Option (List Ns) :=
  if s == "-" then some [] else
  (s.splitOn ";").mapM fun item =>
    match item.splitOn "," with
    | [f, ip, a] => do
      let f ← f.toNat?
      let a ← a.toNat?
      pure ⟨f, ip, a⟩
    | _ => none

def parseSubnets (s : String) : Option (List Subnet) :=
  if s == "-" then some [] else
  (s.splitOn ";").mapM fun item =>
    match item.splitOn "," with
    | [f, w, x, ip, a, fp, lp] => do
      let f ← f.toNat?
      let w ← w.toNat?
      let x ← x.toNat?
      let a ← a.toNat?
      let fp ← fp.toNat?
      let lp ← lp.toNat?
      pure ⟨f, w, x != 0, ip, a, fp, lp⟩
    | _ => none

def parsePkts (s : String) : Option (List Pkt) :=
  (s.splitOn ";").mapM fun item =>
    match item.splitOn "," with
    | [f6, dst, dport, proto, loc, dl, uid, gid, sock] => do
      let dst ← dst.toNat?
      let dport ← dport.toNat?
      pure { fam6 := f6 == "1", dst := dst, dport := dport,
             proto := if proto == "udp" then .udp else .tcp,
             loc := loc == "1", dstLocal := dl == "1", uid := uid, gid := gid,
             hasSocket := sock == "1" }
    | _ => none

def setupOf (m : String) (c : Call) : Option SetupRes :=
  match m with
  | "nat" => some (natSetup c)
  | "nft" => some (nftSetup c)
  | "tproxy" => some (tproxySetup c)
  | "pf-freebsd" => some (pfSetup .freebsd c)
  | "pf-darwin" => some (pfSetup .freebsd c)
  | "pf-openbsd" => some (pfSetup .openbsd c)
  | _ => none

def showCmds (cmds : List Cmd) : String :=
  " ;; ".intercalate (cmds.map fun c => "\t".intercalate (renderCmd c))

def showRes : SetupRes → String
  | .ok cmds => "ok " ++ showCmds cmds
  | .exc t => "exc " ++ t
  | .internalError t => "internalError " ++ t

def showVerdict : Verdict → String
  | .untouched => "u"
  | .divert p => s!"d{p}"

def verdictOf (s : St) (pl : Plan) (p : Pkt) : Verdict :=
  match s.method with
  | "nat" => verdictNat s.rs p
  | "nft" => verdictNft s.rs pl.portV6 pl.portV4 p
  | "tproxy" => verdictTproxy s.rs p
  | "pf-openbsd" => verdictPf .openbsd s.cmds p
  | _ => verdictPf .freebsd s.cmds p

def step (s : St) (line : String) : St × List String :=
  match words line with
  | ["setup", m, fam, port, dnsport, udp, user, group, tmark, ns, sn] =>
    match fam.toNat?, port.toNat?, dnsport.toNat?, parseNs ns, parseSubnets sn with
    | some fam, some port, some dnsport, some ns, some sn =>
      let c : Call := { port := port, dnsport := dnsport, nslist := ns, family := fam, subnets := sn,
                        udp := udp == "1", user := optStr user, group := optStr group, tmark := tmark }
      match setupOf m c with
      | some r => (s, [showRes r])
      | none => (s, ["bad-op"])
    | _, _, _, _, _ => (s, ["bad-op"])
  | ["plan", m, p6, p4, d6, d4, udp, user, group, tmark, ns, sn] =>
    match p6.toNat?, p4.toNat?, d6.toNat?, d4.toNat?, parseNs ns, parseSubnets sn with
    | some p6, some p4, some d6, some d4, some ns, some sn =>
      let pl : Plan := { subnets := sn, nslist := ns, portV6 := p6, portV4 := p4, dnsportV6 := d6,
                         dnsportV4 := d4, udp := udp == "1", user := optStr user,
                         group := optStr group, tmark := tmark }
      let run (acc : Except String (List Cmd)) (v6 : Bool) : Except String (List Cmd) :=
        match acc with
        | .error e => .error e
        | .ok cmds =>
          if pl.active v6 then
            match setupOf m (pl.call v6) with
            | some (.ok cs) => .ok (cmds ++ cs)
            | some r => .error (showRes r)
            | none => .error "bad-op"
          else .ok cmds
      match run (run (.ok []) true) false with
      | .ok cmds => ({ method := m, plan := some pl, cmds := cmds, rs := load cmds }, [s!"ok {cmds.length}"])
      | .error e => ({ method := m, plan := none, cmds := [], rs := Ruleset.empty }, [e])
    | _, _, _, _, _, _ => (s, ["bad-op"])
  | ["walk", pk] =>
    match s.plan, parsePkts pk with
    | some pl, some ps =>
      let honours := s.method == "nat"
      let fwdUdp := s.method == "tproxy" && pl.udp
      let vs := ps.map fun p => showVerdict (verdictOf s pl p)
      let es := ps.map fun p => showVerdict (Spec.expected pl honours fwdUdp p)
      (s, [" ".intercalate vs ++ " | " ++ " ".intercalate es])
    | _, _ => (s, ["bad-op"])
  | ["#flush"] => (s, [])
  | _ => (s, ["bad-op"])

def main : IO Unit := runDriver step ({} : St)
