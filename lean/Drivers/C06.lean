import SshuttleModel.Code.Alloc
open Sshuttle Sshuttle.Alloc

structure St where
  max : Nat := Generated.MAX_CHANNEL
  probes : Nat := Generated.ALLOC_PROBES
  t : Table := {}

def kindOf (s : String) : Option Kind :=
  if s == "tcp" then some .tcp else if s == "dns" then some .dns else if s == "udp" then some .udp else none

def kindStr : Kind → String
  | .tcp => "tcp" | .dns => "dns" | .udp => "udp"

def showOut : Out → String
  | .opened c f => s!"opened {c} {f}"
  | .discarded => "discarded"
  | .closed => "closed"
  | .delivered k f => s!"delivered {kindStr k} {f}"
  | .dropped => "dropped"

def showTable (t : Table) : String :=
  let ids := (t.live.map (·.1)).mergeSort (· ≤ ·)
  s!"chani={t.chani} ids={",".intercalate (ids.map toString)}"

def step (s : St) (line : String) : St × List String :=
  match words line with
  | ["new", m, p] =>
    match m.toNat?, p.toNat? with
    | some m, some p => ({ max := m, probes := p, t := {} }, ["ok"])
    | _, _ => (s, ["bad-op"])
  | ["new", m, p, ch] =>
    match m.toNat?, p.toNat?, ch.toNat? with
    | some m, some p, some ch => ({ max := m, probes := p, t := { chani := ch } }, ["ok"])
    | _, _, _ => (s, ["bad-op"])
  | ["newdefault"] => ({}, [s!"ok {Generated.MAX_CHANNEL} {Generated.ALLOC_PROBES}"])
  | "next" :: ch :: occ =>
    match ch.toNat?, occ.mapM String.toNat? with
    | some ch, some occ =>
      match nextChannel s.max (fun c => occ.contains c) s.probes ch with
      | (some c, ch') => (s, [s!"some {c} {ch'}"])
      | (none, ch') => (s, [s!"none {ch'}"])
    | _, _ => (s, ["bad-op"])
  | ["open", k] =>
    match kindOf k with
    | some k =>
      let (t, o) := s.t.step s.max s.probes (.open k)
      ({ s with t := t }, [s!"{showOut o}"])
    | none => (s, ["bad-op"])
  | ["close", c] =>
    match c.toNat? with
    | some c => let (t, o) := s.t.step s.max s.probes (.close c)
                ({ s with t := t }, [s!"{showOut o}"])
    | none => (s, ["bad-op"])
  | ["frame", c] =>
    match c.toNat? with
    | some c => let (t, o) := s.t.step s.max s.probes (.frame c)
                ({ s with t := t }, [s!"{showOut o}"])
    | none => (s, ["bad-op"])
  | ["table"] => (s, [showTable s.t])
  | ["#flush"] => (s, [])
  | _ => (s, ["bad-op"])

def main : IO Unit := runDriver step ({} : St)
