import SshuttleModel.Code.Alloc
open Sshuttle Sshuttle.Alloc

structure St where
  max : Nat := Generated.MAX_CHANNEL
  probes : Nat := Generated.ALLOC_PROBES
  t : Timed := {}

def kindOf (s : String) : Option Kind :=
  if s == "tcp" then some .tcp else if s == "dns" then some .dns else if s == "udp" then some .udp else none

def kindStr : Kind → String
  | .tcp => "tcp" | .dns => "dns" | .udp => "udp"

def showOut : Out → String
  | .opened c f => s!"opened {c} {f}"
  | .discarded => "discarded"
  | .closed => "closed"
  | .delivered k f => s!"delivered {kindStr k} {f}"
  | .dropped => "dropped"

def showTOut : TOut → String
  | .base o => showOut o
  | .ticked => "ticked"
  | .sent c => s!"sent {c}"
  | .nosuch => "nosuch"

def showTable (s : Timed) : String :=
  let t := s.t
  let ids := (t.live.map (·.1)).mergeSort (· ≤ ·)
  let held := (s.dl.map (·.1)).mergeSort (· ≤ ·)
  s!"chani={t.chani} ids={",".intercalate (ids.map toString)} held={",".intercalate (held.map toString)}"

def step (s : St) (line : String) : St × List String :=
  match words line with
  | ["new", m, p] =>
    match m.toNat?, p.toNat? with
    | some m, some p => ({ max := m, probes := p, t := {} }, ["ok"])
    | _, _ => (s, ["bad-op"])
  | ["new", m, p, ch] =>
    match m.toNat?, p.toNat?, ch.toNat? with
    | some m, some p, some ch => ({ max := m, probes := p, t := { t := { chani := ch } } }, ["ok"])
    | _, _, _ => (s, ["bad-op"])
  | ["new", m, p, ch, now] =>
    match m.toNat?, p.toNat?, ch.toNat?, now.toNat? with
    | some m, some p, some ch, some now => ({ max := m, probes := p, t := { t := { chani := ch }, now := now } }, ["ok"])
    | _, _, _, _ => (s, ["bad-op"])
  | ["tick", d] =>
    match d.toNat? with
    | some d => let (t, o) := s.t.step s.max s.probes (.tick d)
                ({ s with t := t }, [showTOut o])
    | none => (s, ["bad-op"])
  | ["again", c] =>
    match c.toNat? with
    | some c => let (t, o) := s.t.step s.max s.probes (.again c)
                ({ s with t := t }, [showTOut o])
    | none => (s, ["bad-op"])
  | ["newdefault"] => ({}, [s!"ok {Generated.MAX_CHANNEL} {Generated.ALLOC_PROBES}"])
  | "next" :: ch :: occ =>
    match ch.toNat?, occ.mapM String.toNat? with
    | some ch, some occ =>
      match nextChannel s.max (fun c => occ.contains c) s.probes ch with
      | (some c, ch') => (s, [s!"some {c} {ch'}"])
      | (none, ch') => (s, [s!"none {ch'}"])
    | _, _ => (s, ["bad-op"])
  | ["open", k] =>
    match kindOf k with
    | some k =>
      let (t, o) := s.t.step s.max s.probes (.base (.open k))
      ({ s with t := t }, [showTOut o])
    | none => (s, ["bad-op"])
  | ["close", c] =>
    match c.toNat? with
    | some c => let (t, o) := s.t.step s.max s.probes (.base (.close c))
                ({ s with t := t }, [showTOut o])
    | none => (s, ["bad-op"])
  | ["frame", c] =>
    match c.toNat? with
    | some c => let (t, o) := s.t.step s.max s.probes (.base (.frame c))
                ({ s with t := t }, [showTOut o])
    | none => (s, ["bad-op"])
  | ["table"] => (s, [showTable s.t])
  | ["#flush"] => (s, [])
  | _ => (s, ["bad-op"])

def main : IO Unit := runDriver step ({} : St)
