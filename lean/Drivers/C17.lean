import SshuttleModel.Code.Routes
open Sshuttle Sshuttle.Routes

structure St where
  tool   : Tool := .absent
  routes : List Route := []     -- kept routes of the current table, newest first
  raised : Option Exc := none   -- the table's `_list_routes` call raised

def excName : Exc → String
  | .valueError => "ValueError"
  | .unicodeDecodeError => "UnicodeDecodeError"
  | .unicodeEncodeError => "UnicodeEncodeError"
  | .osError => "OSError"
  | .indexError => "IndexError"
  | .overflowError => "OverflowError"
  | .structError => "struct.error"
  | .assertionError => "AssertionError"
  | .noHandler => "Exception"

def adler (b : Bytes) : Nat :=
  let (a, s) := b.foldl (fun (p : Nat × Nat) x =>
    let a := (p.1 + x) % 65521
    (a, (p.2 + a) % 65521)) (1, 0)
  s * 65536 + a

def showRoute (r : Route) : String :=
  strOfBytes (decDigits r.family ++ [44] ++ r.ip ++ [44] ++ decInt r.width)

def toolOf : String → Option Tool
  | "i" => some .iproute
  | "n" => some .netstat
  | "x" => some .absent
  | _ => none

def flag (s : String) (i : Nat) : Bool := (s.toList.getD i '0') == '1'

/-- The plan the harness gives the client before the ROUTES message arrives. -/
def fixedIncl : List Subnet :=
  [⟨2, bytesOfStr "192.0.2.0", 24, 0, 0⟩, ⟨10, bytesOfStr "2001:db8::", 32, 80, 90⟩]
def fixedExcl : List Subnet := [⟨2, bytesOfStr "127.0.0.1", 32, 0, 0⟩]
def fixedTail : List Bytes := [bytesOfStr "NSLIST\n"]

def showClient (r : Except Exc Client) : String :=
  match r with
  | .error e => s!"raise {excName e}"
  | .ok c =>
    let d := c.dialogues.getLastD []
    s!"nets={c.fwAutoNets.length} starts={c.dialogues.length} lines={d.length} adler={adler d.flatten} handler={if c.gotRoutes then 1 else 0}"

def mkClient (flags : String) : Client :=
  { autoNetsOpt := flag flags 2, listeners := ⟨flag flags 0, flag flags 1⟩,
    incl := fixedIncl, excl := fixedExcl }

/-- `fam/ip/width/fport/lport` -/
def parseSubnet (t : String) : Option Subnet :=
  match t.splitOn "/" with
  | [f, ip, w, fp, lp] =>
    match f.toInt?, w.toInt?, fp.toInt?, lp.toInt? with
    | some f, some w, some fp, some lp => some ⟨f, bytesOfStr ip, w, fp, lp⟩
    | _, _, _, _ => none
  | _ => none

/-- `-` or `s1;s2;…` -/
def parseSubnets (t : String) : Option (List Subnet) :=
  if t == "-" then some [] else (t.splitOn ";").mapM parseSubnet

/-- The user's plan given on the input line as `I:<subnets> X:<subnets>` (the subnets of the command line). -/
def mkClientWith (flags inc exc : String) : Option Client :=
  match parseSubnets (inc.drop 2).toString, parseSubnets (exc.drop 2).toString with
  | some i, some x => some { mkClient flags with incl := i, excl := x }
  | _, _ => none

def endTable (s : St) (c0 : Client) : St × List String :=
  match s.raised with
  | some e => (s, [s!"pkt raise {excName e}", "client -"])
  | none =>
    let rs := s.routes.reverse
    let pkt := routePkt rs
    let head := s!"pkt routes={rs.length} len={pkt.length} adler={adler pkt}"
    match sendRoutes {} rs with
    | .error e => (s, [s!"{head} raise {excName e}", "client -"])
    | .ok tx =>
      -- the frame queued by `Mux.send`, as the client's `Mux.handle` will see it
      let frame := tx.outbuf.flatten
      let c := c0.gotRoutesPacket (frame.drop Generated.HDR_LEN) fixedTail
      (s, [s!"{head} sent frame={frame.length}", "client " ++ showClient c])

def step (s : St) (line : String) : St × List String :=
  match words line with
  | ["ipmatch", hex] =>
    match bytesOfHex hex with
    | none => (s, ["bad-op"])
    | some t =>
      match ipmatch t with
      | .ok none => (s, ["none"])
      | .ok (some (ip, w)) => (s, [s!"ok {ip} {w}"])
      | .error e => (s, [s!"raise {excName e}"])
  | ["int", kind, hex] =>
    match bytesOfHex hex with
    | none => (s, ["bad-op"])
    | some t =>
      match (if kind == "b" || kind == "u" then pyInt t else .error .valueError) with
      | .ok n => (s, [s!"ok {n}"])
      | .error e => (s, [s!"raise {excName e}"])
  | ["maskbits", m] =>
    match m.toNat? with
    | some m => (s, [s!"{maskbits (some (m, 32))}"])
    | none => (s, [s!"{maskbits none}"])
  | ["shl", n, bits] =>
    match n.toInt?, bits.toInt? with
    | some n, some b =>
      match shl n b with
      | .ok v => (s, [s!"ok {v}"])
      | .error e => (s, [s!"raise {excName e}"])
    | _, _ => (s, ["bad-op"])
  | ["split", hex] =>
    match bytesOfHex hex with
    | none => (s, ["bad-op"])
    | some t => (s, ["lines " ++ ",".intercalate ((splitLines t).map fun l => toString l.length)])
  | ["begin", t] =>
    match toolOf t with
    | some t => ({ tool := t }, ["ok"])
    | none => (s, ["bad-op"])
  | ["l", hex] =>
    match bytesOfHex hex with
    | none => (s, ["bad-op"])
    | some b =>
      if s.raised.isSome then (s, ["dead"]) else
      match lineStep s.tool b with
      | .error e => ({ s with raised := some e }, [s!"raise {excName e}"])
      | .ok none => (s, ["skip"])
      | .ok (some r) =>
        if keepRoute r then ({ s with routes := r :: s.routes }, [s!"route {showRoute r}"])
        else (s, [s!"filt {showRoute r}"])
  | ["q", hex] =>
    -- as `l`, without an answer (tables too large to be diffed line by line)
    match bytesOfHex hex with
    | none => (s, ["bad-op"])
    | some b =>
      if s.raised.isSome then (s, []) else
      match lineStep s.tool b with
      | .error e => ({ s with raised := some e }, [])
      | .ok none => (s, [])
      | .ok (some r) => if keepRoute r then ({ s with routes := r :: s.routes }, []) else (s, [])
  | ["end", flags] => endTable s (mkClient flags)
  | ["end", flags, inc, exc] =>
    match mkClientWith flags inc exc with
    | some c0 => endTable s c0
    | none => (s, ["bad-op", "bad-op"])
  | ["client", flags, hex] =>
    match bytesOfHex hex with
    | none => (s, ["bad-op"])
    | some b => (s, ["client " ++ showClient ((mkClient flags).gotRoutesPacket b fixedTail)])
  | ["client2", flags, hex] =>
    -- a second ROUTES message after a first (empty) one
    match bytesOfHex hex with
    | none => (s, ["bad-op"])
    | some b =>
      match (mkClient flags).gotRoutesPacket [] fixedTail with
      | .error e => (s, [s!"client first-raise {excName e}"])
      | .ok c => (s, ["client " ++ showClient (c.gotRoutesPacket b fixedTail)])
  | ["#flush"] => (s, [])
  | _ => (s, ["bad-op"])

def main : IO Unit := runDriver step ({} : St)
