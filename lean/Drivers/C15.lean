import SshuttleModel.Basic
import SshuttleModel.Code.ClientPlan
import SshuttleModel.Spec.PlanConsistent
open Sshuttle Sshuttle.ClientPlan Sshuttle.Gen.C15

/-! Line protocol: one configuration per line (`c key=value …`, see harness/props/c15.py
`case_line`), one canonical outcome line back, followed by one line with the spec predicates
(a)–(e) evaluated by `Spec/PlanConsistent.lean` on the model's plan. -/

def famOf (s : String) : Option Fam :=
  if s == "4" then some .v4 else if s == "6" then some .v6 else none

def splitList (s : String) : List String := if s == "-" then [] else s.splitOn ";"

def parseSub (s : String) : Option Subnet :=
  match s.splitOn ":" with
  | [f, ip, w, fp, lp] => do
    pure ⟨← famOf f, ← ip.toNat?, ← w.toNat?, ← fp.toNat?, ← lp.toNat?⟩
  | _ => none

/-- A name server is given as `<numeric name>,<text as written>`; its family is decided by the
model's `familyOfText`, as `helpers.family_ip_tuple` decides it in the code. -/
def parseNs (s : String) : Option Ns :=
  match s.splitOn "," with
  | [ip, text] => do pure ⟨familyOfText text, ← ip.toNat?⟩
  | _ => none

def parseFA (s : String) : Option (Fam × Addr) :=
  match s.splitOn ":" with
  | [f, ip, port] => do pure (← famOf f, ⟨← ip.toNat?, ← port.toNat?⟩)
  | _ => none

def parsePair (s : String) : Option (Nat × Nat) :=
  match s.splitOn ":" with
  | [a, b] => do pure (← a.toNat?, ← b.toNat?)
  | _ => none

structure Rule where
  proto : Proto
  fam : Fam
  lo : Nat
  hi : Nat
  res : Errno

def parseRule (s : String) : Option Rule :=
  match s.splitOn ":" with
  | [p, f, lo, hi, r] => do
    let proto ← if p == "tcp" then some Proto.tcp else if p == "udp" then some Proto.udp else none
    let res ← if r == "inuse" then some Errno.inUse else if r == "notavail" then some Errno.notAvail
              else if r == "acces" then some Errno.acces else none
    pure ⟨proto, ← famOf f, ← lo.toNat?, ← hi.toNat?, res⟩
  | _ => none

def oracleOf (rules : List Rule) (proto : Proto) (fam : Fam) (port : Nat) : Option Errno :=
  match rules.find? (fun r => r.proto == proto && r.fam == fam && r.lo ≤ port && port ≤ r.hi) with
  | some r => some r.res
  | none => none

def lookupOf (tbl : List (Nat × Nat)) (k : Nat) : Option Nat := (tbl.find? (·.1 == k)).map (·.2)

def bitsFeatures (s : String) : Option Features :=
  match s.toList.map (· == '1') with
  | [a, b, c, d, e, f, g] => some ⟨a, b, c, d, e, f, g⟩
  | _ => none

def featuresOf (name : String) : Option Features :=
  if name.startsWith "x" then bitsFeatures (name.drop 1).toString
  else (METHOD_TABLE.find? (·.1 == name)).map (·.2)

def field (kv : List (String × String)) (k : String) : Option String := (kv.find? (·.1 == k)).map (·.2)

def parseCase (ws : List String) : Option (Cmd × Env) := do
  let kv := ws.filterMap fun w => match w.splitOn "=" with | [k, v] => some (k, v) | _ => none
  let meth ← field kv "meth"
  let helper ← field kv "helper"
  let dis6 ← field kv "dis6"
  let listen ← field kv "listen"
  let dns ← field kv "dns"
  let nsh ← (splitList (← field kv "nsh")).mapM parseNs
  let tonsS ← field kv "tons"
  let tons ← if tonsS == "-" then some none else (parseFA tonsS).map (fun x => some x.2)
  let inc ← (splitList (← field kv "inc")).mapM parseSub
  let exc ← (splitList (← field kv "exc")).mapM parseSub
  let an ← field kv "an"
  let userS ← field kv "user"
  let groupS ← field kv "group"
  let user ← if userS == "-" then some none else userS.toNat?.map some
  let group ← if groupS == "-" then some none else groupS.toNat?.map some
  let remote ← field kv "remote"
  let resolv ← (splitList (← field kv "resolv")).mapM parseNs
  let users ← (splitList (← field kv "users")).mapM parsePair
  let groups ← (splitList (← field kv "groups")).mapM parsePair
  let rules ← (splitList (← field kv "bind")).mapM parseRule
  let lst ← if listen == "N" then some none else ((splitList listen).mapM parseFA).map some
  let av ← featuresOf helper
  let c : Cmd := { methodOpt := if meth == "-" then none else some meth, disableIpv6 := dis6 == "1",
                   listen := lst, dns := dns == "1", nsHosts := nsh, toNs := tons, includes := inc,
                   excludes := exc, autoNets := an == "1", user := user, group := group,
                   remote := remote == "1" }
  let env : Env := { avail := av, resolv := resolv, users := lookupOf users, groups := lookupOf groups,
                     bind := oracleOf rules }
  pure (c, env)

def showSub (s : Subnet) : String :=
  s!"{if s.fam == .v4 then 4 else 6}:{s.ip}:{s.width}:{s.fport}:{s.lport}"

def showNs (n : Ns) : String := s!"{if n.fam == .v4 then 4 else 6}:{n.ip}"

def showList {α} (f : α → String) (l : List α) : String :=
  if l.isEmpty then "-" else ";".intercalate (l.map f)

def showAddr : Option Addr → String
  | none => "-"
  | some a => s!"{a.ip}:{a.port}"

def showL : Option Listener → String
  | none => "N"
  | some l => s!"{showAddr l.v6}/{showAddr l.v4}"

def showOpt : Option Nat → String
  | none => "-"
  | some n => toString n

def keyName : FeatKey → String
  | .loopback_proxy_port => "loopback_proxy_port" | .ipv4 => "ipv4" | .ipv6 => "ipv6" | .udp => "udp"
  | .dns => "dns" | .user => "user" | .group => "group"

def showFatal : FatalMsg → String
  | .noRemote => "no-remote" | .ipv6ListenUnsupported => "ipv6-listen-unsupported"
  | .userMissing => "user-missing" | .groupMissing => "group-missing" | .dnsAllV6 => "dns-all-v6"
  | .feature k => "feature-" ++ keyName k | .bindV6NotAvail => "bind-v6-notavail"
  | .v6SubnetsNotListening => "v6-subnets-not-listening" | .v6NsNotListening => "v6-ns-not-listening"
  | .v4SubnetsNotListening => "v4-subnets-not-listening" | .v4NsNotListening => "v4-ns-not-listening"

def showInternal : Internal → String
  | .assertIpv4 => "assert" | .attributeError => "AttributeError" | .listenipNone => "listenip-none"
  | .usedPortsUnbound => "used_ports-unbound" | .dnsListenerUnbound => "dns_listener-unbound"
  | .assertLastE => "assert" | .assertSanity => "assert"

def showErrno : Errno → String
  | .inUse => "EADDRINUSE" | .notAvail => "EADDRNOTAVAIL" | .acces => "EACCES"

def showOutcome : Outcome → String
  | .usage .methodChoice => "usage method-choice"
  | .usage .noSubnets => "usage no-subnets"
  | .stop (.fatal m) => "fatal " ++ showFatal m
  | .stop (.osError e) => "oserror " ++ showErrno e
  | .stop (.internal t) => "internal " ++ showInternal t
  | .plan p =>
    s!"plan inc={showList showSub p.includes} exc={showList showSub p.excludes} ns={showList showNs p.nslist} " ++
    s!"rp6={p.rp6} rp4={p.rp4} dp6={p.dp6} dp4={p.dp4} udp={if p.udp then 1 else 0} user={showOpt p.user} " ++
    s!"group={showOpt p.group} tcp={showL (some p.tcp)} udp_l={showL p.udpL} dns_l={showL p.dnsL} " ++
    s!"tons={match p.toNs with | none => "-" | some a => s!"{a.ip}@{a.port}"}"

def b (x : Bool) : String := if x then "1" else "0"

def step (s : Unit) (line : String) : Unit × List String :=
  match words line with
  | "c" :: rest =>
    match parseCase rest with
    | none => (s, ["bad-op", "bad-op"])
    | some (c, env) =>
      let o := run c env
      let spec := match o with
        | .plan p =>
          let given := c.listen.isSome
          s!"spec a={b (PlanSpec.chkA given p)} b={b (PlanSpec.chkB c.includes p)} c={b (PlanSpec.chkC p)} " ++
          s!"d={b (PlanSpec.chkD p)} e={b (PlanSpec.chkE p)}"
        | _ => "spec -"
      (s, [showOutcome o, spec])
  | ["#flush"] => (s, [])
  | _ => (s, ["bad-op", "bad-op"])

def main : IO Unit := runDriver step ()
