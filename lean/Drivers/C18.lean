import SshuttleModel.Code.Bootstrap
open Sshuttle Sshuttle.Bootstrap

/-! Line protocol of the C18 driver: one input line, one output line.
Fields are `key=value` tokens; byte strings are hex (`-` = empty), lists use `,`. -/

def fnv (b : Bytes) : Nat :=
  b.foldl (fun h x => ((h ^^^ x) * 16777619) % 4294967296) 2166136261

/-- length, checksum, and the bytes themselves when short -/
def sumOf (b : Bytes) : String :=
  if b.length ≤ 48 then s!"{b.length}:{fnv b}:{hexTok b}" else s!"{b.length}:{fnv b}"

def field (ws : List String) (k : String) : Option String :=
  (ws.find? (fun w => w.startsWith (k ++ "="))).map fun w => (w.drop (k.length + 1)).toString

def listOf (s : String) : List String :=
  if s == "_" || s == "" then [] else s.splitOn ","

def hexList (s : String) : Option (List Bytes) := (listOf s).mapM bytesOfHex

def natList (s : String) : Option (List Nat) := (listOf s).mapM String.toNat?

/-- `name:u|x:hex|NONE` -/
def parseFile (s : String) : Option (Bytes × Bool × Option Bytes) :=
  match s.splitOn ":" with
  | [n, u, d] =>
    match bytesOfHex n with
    | none => none
    | some nb =>
      if d == "NONE" then some (nb, u == "u", none)
      else (bytesOfHex d).map fun db => (nb, u == "u", some db)
  | _ => none

def envOf (files : List (Bytes × Bool × Option Bytes)) : Env where
  fs := fun name => (files.find? (fun f => f.1 == name)).bind (fun f => f.2.2)
  recode := fun data =>
    match files.find? (fun f => f.2.2 == some data) with
    | some f => if f.2.1 then some data else none
    | none => some data

/-- `fedlen.fedfnv:zc:zf` -/
def parseScript (s : String) : Option (Nat × Nat × Bytes × Bytes) :=
  match s.splitOn ":" with
  | [fed, zc, zf] =>
    match fed.splitOn ".", bytesOfHex zc, bytesOfHex zf with
    | [l, h], some c, some f =>
      match l.toNat?, h.toNat? with
      | some l, some h => some (l, h, c, f)
      | _, _ => none
    | _, _, _ => none
  | _ => none

/-- The codec whose answers are the ones the real zlib objects gave in the real run.
The compressor answers only if it is fed what the real one was fed. -/
def scriptCodec (cs : List (Nat × Nat × Bytes × Bytes)) (ds : List (Nat × Nat × Option Bytes)) : Codec where
  CState := List (Nat × Nat × Bytes × Bytes)
  DState := List (Nat × Nat × Option Bytes)
  cinit := cs
  dinit := ds
  compress := fun s d =>
    match s with
    | (l, h, zc, _) :: _ => (s, if d.length = l ∧ fnv d = h then zc else [66, 65, 68, 70, 69, 68])
    | [] => (s, [78, 79, 83, 67, 82, 73, 80, 84])
  syncFlush := fun s =>
    match s with
    | (_, _, _, zf) :: r => (r, zf)
    | [] => (s, [])
  decompress := fun d fed =>
    match d with
    | (l, h, some o) :: r => some (r, if fed.length = l ∧ fnv fed = h then o else [66, 65, 68, 70, 69, 68])
    | _ => none

/-- `fedlen.fedfnv:hex|!` -/
def parseDout (s : String) : Nat × Nat × Option Bytes :=
  match s.splitOn ":" with
  | [fed, o] =>
    match fed.splitOn "." with
    | [l, h] => (l.toNat?.getD 0, h.toNat?.getD 0, if o == "!" then none else bytesOfHex o)
    | _ => (0, 0, none)
  | _ => (0, 0, none)

def errTag : PackErr → String
  | .noSuchModule => "noSuchModule"
  | .decodeError => "decodeError"
  | .nameNotAscii => "nameNotAscii"

def endTag : AsmEnd → String
  | .done => "done" | .nameNotAscii => "nameNotAscii" | .valueError => "valueError"
  | .zlibError => "zlibError" | .parentMissing => "parentMissing" | .fuel => "fuel"

def splitSizes : Bytes → List Nat → List Bytes
  | b, [] => if b.isEmpty then [] else [b]
  | b, n :: ns => if b.isEmpty then [] else b.take n :: splitSizes (b.drop n) ns

def showVal : Val → String
  | .bool true => "T" | .bool false => "F" | .none => "N"
  | .emptyList => "L"
  | .int i => s!"i{i}"
  | .str s => "s" ++ ".".intercalate (s.map toString)

def parseVal (s : String) : Option Val :=
  if s == "T" then some (.bool true) else if s == "F" then some (.bool false)
  else if s == "N" then some .none
  else if s == "L" then some .emptyList
  else if s.startsWith "i" then ((s.drop 1).toString.toInt?).map .int
  else if s.startsWith "s" then
    let body := (s.drop 1).toString
    if body == "" then some (.str []) else ((body.splitOn ".").mapM String.toNat?).map .str
  else none

def parseOpt (s : String) : Option (List Nat × Val) :=
  match s.splitOn ":" with
  | [k, v] =>
    match bytesOfHex k, parseVal v with
    | some kb, some vv => some (kb, vv)
    | _, _ => none
  | _ => none

def showOpts (o : List (List Nat × Val)) : String :=
  if o.isEmpty then "_" else ",".intercalate (o.map fun (k, v) => s!"{hexTok k}:{showVal v}")

def showEv : Ev → String
  | .write d => s!"w:{sumOf d}"
  | .syncOk => "sync"
  | .fatal g => s!"fatal:{hexTok g}"

def step (_s : Unit) (line : String) : Unit × List String :=
  let ws := words line
  let out : String :=
    match ws with
    | "src" :: _ =>
      match (field ws "file").bind parseFile with
      | none => "bad-op"
      | some f =>
        match getModuleSource Gen.C18.SOURCE_BINARY (envOf [f]) f.1 with
        | .ok d => s!"ok {hexTok d}"
        | .noSuchModule => "noSuchModule"
        | .decodeError => "decodeError"
    | "pack" :: _ =>
      match (field ws "names").bind hexList, (field ws "explicit").bind hexList,
            (field ws "opt").bind bytesOfHex, (field ws "files").map listOf,
            (field ws "script").map (fun s => if s == "_" then [] else s.splitOn ";") with
      | some names, some explicit, some opt, some files, some script =>
        match files.mapM parseFile, script.mapM parseScript with
        | some fl, some sc =>
          let c := scriptCodec sc []
          match packList c Gen.C18.SOURCE_BINARY (envOf fl) explicit opt c.cinit names with
          | .ok frames => s!"ok frames={sumOf frames}"
          | .error e => s!"error {errTag e}"
        | _, _ => "bad-op"
      | _, _, _, _, _ => "bad-op"
    | "connect" :: _ =>
      match (field ws "opt").bind bytesOfHex, (field ws "files").map listOf,
            (field ws "script").map (fun s => if s == "_" then [] else s.splitOn ";") with
      | some opt, some files, some script =>
        match files.mapM parseFile, script.mapM parseScript with
        | some fl, some sc =>
          match connect (scriptCodec sc []) (envOf fl) opt with
          | .ok up => s!"ok content={sumOf up.content} content2={sumOf up.content2}"
          | .error e => s!"error {errTag e}"
        | _, _ => "bad-op"
      | _, _, _ => "bad-op"
    | "boot" :: _ =>
      match (field ws "n").bind String.toNat?, (field ws "pre").bind hexList,
            (field ws "segs").bind natList, (field ws "stream").bind bytesOfHex,
            (field ws "douts").map listOf with
      | some n, some pre, some segs, some stream, some douts =>
        let ds := douts.map parseDout
        let c := scriptCodec [] ds
        let raw := splitSizes stream segs
        let r := bootstrap c n pre raw
        let mods := ";".intercalate (r.st.mods.map fun (nm, ct) => s!"{hexTok nm}/{sumOf ct}")
        let imp := if r.fin != .done then "-" else
          if importsResolved r.st.mods Gen.C18.ASSEMBLER_IMPORTS_BYTES then "1" else "0"
        s!"asm={sumOf r.assembler} mods={if r.st.mods.isEmpty then "_" else mods} end={endTag r.fin} rest={sumOf r.st.rd.flat} imports={imp}"
      | _, _, _, _, _ => "bad-op"
    | "opts" :: _ =>
      match (field ws "o").map listOf, (field ws "np").bind natList with
      | some os, some np =>
        match os.mapM parseOpt with
        | some opts =>
          match optdataOf (fun c => np.contains c) opts with
          | some b => s!"ok {hexTok b}"
          | none => "encodeError"
        | none => "bad-op"
      | _, _ => "bad-op"
    | ["evalopts", hex] =>
      match bytesOfHex hex with
      | none => "bad-op"
      | some b =>
        match remoteOptions b with
        | some o => s!"ok {showOpts o}"
        | none => "none"
    | "main" :: _ =>
      match (field ws "c1").bind bytesOfHex, (field ws "c2").bind bytesOfHex, field ws "grant",
            (field ws "srv").bind hexList with
      | some c1, some c2, some g, some srv =>
        let grant := if g == "N" then none else g.toNat?
        " ".intercalate ((clientStart ⟨c1, c2⟩ srv grant).map showEv)
      | _, _, _, _ => "bad-op"
    | "enter" :: _ =>
      match (field ws "o").map listOf with
      | some os =>
        match os.mapM parseOpt with
        | some opts =>
          let ns : String → Option Val := fun name => (opts.find? (fun kv => kv.1 == bytesOfStr name)).map (·.2)
          let r := enterMain Gen.C18.SERVER_MAIN_PARAMS Gen.C18.MAIN_BINDING ns
          ",".intercalate (r.map fun (p, v) => s!"{p}:{match v with | some v => showVal v | none => "?"}")
        | none => "bad-op"
      | none => "bad-op"
    | ["int", hex] =>
      match bytesOfHex hex with
      | none => "bad-op"
      | some b => match parseInt b with | some i => s!"ok {i}" | none => "valueError"
    | ["#flush"] => ""
    | _ => "bad-op"
  ((), if line == "#flush" then [] else [out])

def main : IO Unit := runDriver step ()
