import SshuttleModel.Code.DgramSys
import SshuttleModel.Gen.C10
import SshuttleModel.Gen.C11
open Sshuttle Sshuttle.Dgram

/-- Constants come from `Generated.lean`; the code-shape flags from `Gen/C10.lean`, `Gen/C11.lean`. -/
def baseCfg : Cfg :=
  { connectInTry := Gen.C10.DNS_CONNECT_IN_TRY, recvErrSafe := Gen.C11.UDP_RECV_ERR_SAFE }

def main : IO Unit := runDriver (textStep baseCfg) ({ cfg := baseCfg } : Sys)
