import SshuttleModel.Code.Dst
open Sshuttle Sshuttle.Dst

def tok (b : Bytes) : String := hexTok b

def showDst : DstRes → String
  | .ok ip port => s!"ok {tok ip} {port}"
  | .sockname => "sockname"
  | .raised e => s!"raised {e}"
  | .structError => "structError"
  | .fatal => "fatal"

def showUdpDst : UdpDst → String
  | .none_ => "none"
  | .ok ip port => s!"ok {tok ip} {port}"
  | .structError => "structError"
  | .fatal => "fatal"
  | .valueError => "valueError"

def showEv : Ev → String
  | .close => "close"
  | .connect c p => s!"connect {c} {tok p}"
  | .raised => "raised"

def parseCmsg (s : String) : Option Cmsg :=
  match s.splitOn "." with
  | [l, t, d] =>
    match l.toNat?, t.toNat?, bytesOfHex d with
    | some l, some t, some d => some ⟨l, t, d⟩
    | _, _, _ => none
  | _ => none

def layoutOf (s : String) : Option PfLayout :=
  if s == "F" then PfLayout.ofList Gen.C05.PF_LAYOUT_FREEBSD
  else if s == "O" then PfLayout.ofList Gen.C05.PF_LAYOUT_OPENBSD
  else if s == "D" then PfLayout.ofList Gen.C05.PF_LAYOUT_DARWIN
  else none

def showKey (k : NatKey) : String :=
  s!"af={k.af} proto={k.proto} dir={k.direction} s={tok k.saddr}:{k.sport} d={tok k.daddr}:{k.dport}"

def showUdpEv : UdpEv → String
  | .open_ c p => s!"open {c} {tok p}"
  | .data c p => s!"data {c} {tok p}"
  | .close c => s!"close {c}"
  | .raised => "raised"

def stepU (s : UdpTable) (line : String) : UdpTable × List String :=
  let bad := (s, ["bad-op"])
  match words line with
  | ["odst", fam, "b", hex] =>
    match fam.toNat?, bytesOfHex hex with
    | some f, some b => (s, [showDst (originalDst f (.bytes b))])
    | _, _ => bad
  | ["odst", fam, "e", e] =>
    match fam.toNat?, e.toNat? with
    | some f, some e => (s, [showDst (originalDst f (.error e))])
    | _, _ => bad
  | ["ntop", fam, hex] =>
    match fam.toNat?, bytesOfHex hex with
    | some f, some b =>
      match inetNtop f b with
      | .ok ip => (s, [s!"ok {tok ip}"])
      | .valueError => (s, ["valueError"])
    | _, _ => bad
  | ["str6", hex] =>
    match bytesOfHex hex with
    | some b => (s, [tok (strV6 (hextets b))])
    | none => bad
  | ["pton", fam, hex] =>
    match fam.toNat?, bytesOfHex hex with
    | some f, some t =>
      match inetPton f t with
      | some b => (s, [s!"ok {tok b}"])
      | none => (s, ["err"])
    | _, _ => bad
  | ["int", hex] =>
    match bytesOfHex hex with
    | some t =>
      match pyInt t with
      | some i => (s, [s!"ok {i}"])
      | none => (s, ["valueError"])
    | none => bad
  | ["accept", fam, ip, port, sockPort, isl, chan] =>
    let isl? : Option IsLocal :=
      if isl == "y" then some .yes else if isl == "n" then some .no
      else if isl == "r" then some .raised else none
    let chan? : Option (Option Nat) := if chan == "N" then some none else chan.toNat?.map some
    match fam.toNat?, bytesOfHex ip, port.toInt?, sockPort.toInt?, isl?, chan? with
    | some f, some ip, some p, some sp, some isl, some ch =>
      (s, [" ".intercalate ((onacceptTcp f ip p sp isl ch).map showEv)])
    | _, _, _, _, _, _ => bad
  | ["newchan", hex] =>
    match bytesOfHex hex with
    | some d =>
      match newChannel d with
      | .ok f ip p => (s, [s!"ok {f} {tok ip} {p}"])
      | .unicodeError => (s, ["unicodeError"])
      | .valueError => (s, ["valueError"])
    | none => bad
  | ["udphdr", ip, port, data] =>
    match bytesOfHex ip, port.toInt?, bytesOfHex data with
    | some ip, some p, some d => (s, [tok (encodeUdp ip p d)])
    | _, _, _ => bad
  | ["udpreq", hex] =>
    match bytesOfHex hex with
    | some d =>
      match udpReq d with
      | .ok ip p payload => (s, [s!"ok {tok ip} {p} {tok payload}"])
      | .valueError => (s, ["valueError"])
    | none => bad
  | "cmsg" :: le :: m :: items =>
    match items.mapM parseCmsg with
    | some cs =>
      if m == "t" then (s, [showUdpDst (tproxyRecvUdp (le == "1") cs)])
      else if m == "i" then (s, [showUdpDst (ipfwRecvUdp cs)])
      else bad
    | none => bad
  | ["pfreq", fam, peer, proxyIp, proxyPort] =>
    let peer? : Option PeerRes :=
      if peer == "E" then some .einval else if peer == "O" then some .otherError else
      match peer.splitOn "." with
      | [ip, port] =>
        match bytesOfHex ip, port.toInt? with
        | some ip, some p => some (.ok ip p)
        | _, _ => none
      | _ => none
    match fam.toNat?, peer?, bytesOfHex proxyIp, proxyPort.toInt? with
    | some f, some peer, some pip, some pp =>
      match pfGetTcpDstip f peer pip pp with
      | .sockname => (s, ["sockname"])
      | .ask l => (s, [s!"ask {tok l}"])
      | .unbound => (s, ["unbound"])
      | .unicodeError => (s, ["unicodeError"])
    | _, _, _, _ => bad
  | ["pfreply", hex] =>
    match bytesOfHex hex with
    | some l =>
      match pfParseReply l with
      | .ok ip p => (s, [s!"ok {tok ip} {p}"])
      | .sockname => (s, ["sockname"])
      | .valueError => (s, ["valueError"])
      | .unicodeError => (s, ["unicodeError"])
    | none => bad
  | ["pfcmd", lay, kern, hex] =>
    let kern? : Option NatlookRes :=
      if kern == "E" then some .ioError else
      match kern.splitOn "." with
      | [a, p] =>
        match bytesOfHex a, p.toNat? with
        | some a, some p => some (.found a p)
        | _, _ => none
      | _ => none
    match layoutOf lay, kern?, bytesOfHex hex with
    | some L, some k, some l =>
      match pfFirewallCommand L (fun _ _ => k) l with
      | .notMine => (s, ["notMine"])
      | .reply line none => (s, [s!"reply {tok line} key=-"])
      | .reply line (some buf) =>
        -- the address length is 4 for AF_INET, 16 otherwise (what the kernel reads for `af`)
        let af := (peek buf L.af 1).headD 0
        let n := if af = Gen.C05.AF_INET then 4 else 16
        (s, [s!"reply {tok line} key={showKey (readKey L buf n)}"])
      | .typeError => (s, ["typeError"])
      | .valueError => (s, ["valueError"])
      | .overflow => (s, ["overflow"])
    | _, _, _ => bad
  | ["udpnew"] => ([], ["ok"])
  | ["udpacc", fam, src, ip, port, data, fresh, now] =>
    let fresh? : Option (Option Nat) := if fresh == "N" then some none else fresh.toNat?.map some
    match fam.toNat?, src.toNat?, bytesOfHex ip, port.toInt?, bytesOfHex data, fresh?, now.toNat? with
    | some f, some src, some ip, some p, some d, some fr, some now =>
      let r := onacceptUdp s f src ip p d fr now
      (r.1, [if r.2.isEmpty then "-" else " ".intercalate (r.2.map showUdpEv)])
    | _, _, _, _, _, _, _ => bad
  | ["#flush"] => (s, [])
  | _ => bad

structure DState where
  udp : UdpTable := []
  sess : Sess := {}

def step (st : DState) (line : String) : DState × List String :=
  match words line with
  | ["sess", "new"] => ({ st with sess := {} }, ["ok"])
  | ["sess", "host", f] =>
    let r := sessStep st.sess (.host (f == "1"))
    ({ st with sess := r.1 }, ["-"])
  | ["sess", "query", hex] =>
    match bytesOfHex hex with
    | some reply =>
      let r := sessStep st.sess (.query reply)
      ({ st with sess := r.1 }, [match r.2 with
        | some (.line l) => s!"line {tok l}"
        | some .eof => "eof"
        | none => "-"])
    | none => (st, ["bad-op"])
  | _ =>
    let r := stepU st.udp line
    ({ st with udp := r.1 }, r.2)

def main : IO Unit := runDriver step ({} : DState)
