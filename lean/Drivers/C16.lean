import SshuttleModel.Code.Args
open Sshuttle Sshuttle.Args Sshuttle.Inet

/-! Line protocol of the C16 code model.  Strings travel as hex of their UTF-8 bytes
(`-` = empty string).  See `harness/props/c16.py` for the other side. -/

def byteArrayOfHex (s : String) : Option ByteArray :=
  (bytesOfHex s).map fun b => ByteArray.mk (b.map (·.toUInt8)).toArray

def strOfHex (s : String) : Option Str :=
  match byteArrayOfHex s with
  | none => none
  | some ba => (String.fromUTF8? ba).map String.toList

def hexOfStr (s : Str) : String :=
  hexTok ((String.ofList s).toUTF8.toList.map (·.toNat))

def showStr (s : Str) : String := String.ofList s

structure St where
  resolver : List (Str × List (Family × Str)) := []

def parseAddrs (s : String) : Option (List (Family × Str)) :=
  if s == "-" then some [] else
  (s.splitOn ",").mapM fun e =>
    match e.splitOn "." with
    | [f, h] =>
      match strOfHex h with
      | some a => if f == "4" then some (Family.inet, a) else if f == "6" then some (Family.inet6, a) else none
      | none => none
    | _ => none

def parseResolver (toks : List String) : Option (List (Str × List (Family × Str))) :=
  toks.mapM fun t =>
    match t.splitOn "=" with
    | [n, v] =>
      match strOfHex n, parseAddrs v with
      | some n, some v => some (n, v)
      | _, _ => none
    | _ => none

/-- `i:<hosthex>:<resulthex or !>` tokens -/
def parseIdna (toks : List String) : Option (List (Str × Option Str)) :=
  toks.mapM fun t =>
    match t.splitOn ":" with
    | ["i", h, r] =>
      match strOfHex h with
      | none => none
      | some h =>
        if r == "!" then some (h, none) else (strOfHex r).map fun r => (h, some r)
    | _ => none

/-- The environment of one case.  A host the harness did not announce makes the idna oracle
answer with a marker that can never be numeric nor in the resolver table. -/
def mkEnv (st : St) (idna : List (Str × Option Str)) : Env where
  idna := fun h =>
    match idna.find? (·.1 = h) with
    | some (_, r) => r
    | none => some "?oracle-miss?".toList
  resolve := fun n =>
    match st.resolver.find? (·.1 = n) with
    | some (_, l) => some l
    | none => none

def fam (f : Family) : String :=
  match f with
  | .inet => "4"
  | .inet6 => "6"

def showExc (e : Exc) : String :=
  match e with
  | .fatal .badFormat => "fatal badFormat"
  | .fatal .unresolved => "fatal unresolved"
  | .fatal .mixedFamilies => "fatal mixedFamilies"
  | .fatal .cidrRange => "fatal cidrRange"
  | .gaierror => "gaierror"
  | .unicodeError => "unicodeError"
  | .valueError _ => "valueError"
  | .unmodelled t => "unmodelled " ++ t

def showLayer {α : Type} (o : Outcome α) : String :=
  match o with
  | .ok _ => "ok"
  | .usage => "usage"
  | .internalError _ => "internal"
  | .unmodelled _ => "unmodelled"

def showSubnets (l : List Subnet) : String :=
  if l.isEmpty then "-" else
  ";".intercalate (l.map fun s => s!"{fam s.family},{showStr s.addr},{s.width},{s.fport},{s.lport}")

def showOpt (o : Option Str) : String :=
  match o with
  | none => "N"
  | some s => hexOfStr s

def showGroups (g : Option Groups) : String :=
  match g with
  | none => "nomatch"
  | some g => s!"m {hexOfStr g.host} {showOpt g.cidr} {showOpt g.fport} {showOpt g.lport}"

def showIpPort (o : Option (Str × Nat)) : String :=
  match o with
  | none => "-"
  | some (ip, p) => s!"{showStr ip},{p}"

def step (st : St) (line : String) : St × List String :=
  match words line with
  | "resolver" :: toks =>
    match parseResolver toks with
    | some r => ({ st with resolver := r }, ["ok"])
    | none => (st, ["bad-op"])
  | "sub" :: s :: idna =>
    match strOfHex s, parseIdna idna with
    | some s, some idna =>
      let r := parseSubnetport (mkEnv st idna) s
      let layer := showLayer (argparseType r)
      match r with
      | .ok l => (st, [s!"ok {showSubnets l} layer={layer}"])
      | .error e => (st, [s!"{showExc e} layer={layer}"])
    | _, _ => (st, ["bad-op"])
  | "file" :: s :: idna =>
    match strOfHex s, parseIdna idna with
    | some s, some idna =>
      match parseSubnetportFile (mkEnv st idna) s with
      | .ok ls => (st, ["ok " ++ (if ls.isEmpty then "-" else "|".intercalate (ls.map showSubnets))])
      | .error e => (st, [showExc e])
    | _, _ => (st, ["bad-op"])
  | "ipp" :: s :: idna =>
    match strOfHex s, parseIdna idna with
    | some s, some idna =>
      let r := parseIpport (mkEnv st idna) s
      let layer := showLayer (argparseType r)
      match r with
      | .ok (f, ip, p) => (st, [s!"ok {fam f},{showStr ip},{p} layer={layer}"])
      | .error e => (st, [s!"{showExc e} layer={layer}"])
    | _, _ => (st, ["bad-op"])
  | "listen" :: s :: idna =>
    match strOfHex s, parseIdna idna with
    | some s, some idna =>
      match parseListen (mkEnv st idna) s with
      | .ok (v6, v4) => (st, [s!"ok v6={showIpPort v6} v4={showIpPort v4}"])
      | .usage => (st, ["usage"])
      | .internalError _ => (st, ["internal"])
      | .unmodelled t => (st, ["unmodelled " ++ t])
    | _, _ => (st, ["bad-op"])
  | ["hp", s] =>
    let arg : Option (Option Str) := if s == "N" then some none else (strOfHex s).map some
    match arg with
    | none => (st, ["bad-op"])
    | some a =>
      match parseHostport a with
      | .ok h =>
        let port := match h.port with
          | none => "N"
          | some p => toString p
        (st, [s!"ok user={showOpt h.username} pw={showOpt h.password} port={port} host={showOpt h.host}"])
      | .error e => (st, [showExc e])
  | "store" :: dest :: nenv :: toks =>
    let occ : Option (List (String × Str)) := toks.mapM fun t =>
      match t.splitOn "=" with
      | [o, v] => (strOfHex v).map fun v => (o, v)
      | _ => none
    match nenv.toNat?, occ with
    | some n, some occ => (st, ["val=" ++ showOpt (storeValue dest (occ.take n) (occ.drop n))])
    | _, _ => (st, ["bad-op"])
  -- regular expressions alone
  | ["rx4", s] => (st, [match strOfHex s with | some s => showGroups (matchRx4 s) | none => "bad-op"])
  | ["rx6", s] => (st, [match strOfHex s with | some s => showGroups (matchRx6 s) | none => "bad-op"])
  | ["rxip", s] =>
    (st, [match strOfHex s with
      | some s => (match matchIpport s with
        | none => "nomatch"
        | some (h, p) => s!"m {hexOfStr h} {showOpt p}")
      | none => "bad-op"])
  | ["int", s] =>
    (st, [match strOfHex s with
      | some s => (match pyInt s with
        | .ok n => s!"ok {n}"
        | .error e => showExc e)
      | none => "bad-op"])
  -- library model
  | ["gai", s] =>
    (st, [match strOfHex s with
      | some s => (match gaiNumeric s with
        | .v4 a => s!"v4 {showStr (ntoa a)}"
        | .v6 a => s!"v6 {showStr (ntop6 a)}"
        | .star => "star"
        | .scoped => "unmodelled scoped"
        | .notNumeric => "name")
      | none => "bad-op"])
  | ["aton", s] =>
    (st, [match strOfHex s with
      | some s => (match aton s with
        | some a => s!"v {a}"
        | none => "none")
      | none => "bad-op"])
  | ["pton6", s] =>
    (st, [match strOfHex s with
      | some s => (match pton6 s with
        | some a => s!"v {a}"
        | none => "none")
      | none => "bad-op"])
  | ["pton4", s] =>
    (st, [match strOfHex s with
      | some s => (match pton4 s with
        | some a => s!"v {a}"
        | none => "none")
      | none => "bad-op"])
  | ["ntop6", n] => (st, [match n.toNat? with | some n => showStr (ntop6 n) | none => "bad-op"])
  | ["ntoa", n] => (st, [match n.toNat? with | some n => showStr (ntoa n) | none => "bad-op"])
  | ["gaiport", n] =>
    (st, [match n.toNat? with
      | some n => (match gaiPort n with
        | some p => s!"p {p}"
        | none => "gaierror")
      | none => "bad-op"])
  | ["ipaddr", s] =>
    (st, [match strOfHex s with
      | some s => (match ipAddress s with
        | some ip => (match ip with
          | .v4 _ => "v4 " ++ hexOfStr (ipToStr ip)
          | .v6 _ _ => "v6 " ++ hexOfStr (ipToStr ip))
        | none => "none")
      | none => "bad-op"])
  | ["#flush"] => (st, [])
  | _ => (st, ["bad-op"])

def main : IO Unit := runDriver step ({} : St)
