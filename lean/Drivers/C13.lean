import SshuttleModel.Code.FwDialogue
open Sshuttle Sshuttle.FwDialogue

/-! Line protocol of the C13 driver (one answer line per input line):
  `helper <hex>`                     the helper fed that byte stream
  `start <plan>`                     `FirewallClient.start`'s writes
  `host <namehex> <iphex>`           `FirewallClient.sethostip`'s write
Strings that may hold any code point are written `e` (empty) or `c1_c2_…` (decimal). -/

def cps (s : String) : Option Str :=
  if s = "e" then some [] else (s.splitOn "_").mapM String.toNat?

def listOf {α} (s : String) (f : String → Option α) : Option (List α) :=
  if s = "-" then some [] else (s.splitOn ";").mapM f

def subnetOf (s : String) : Option Subnet :=
  match s.splitOn "/" with
  | [f, w, ip, fp, lp] =>
    match f.toNat?, w.toNat?, cps ip, fp.toNat?, lp.toNat? with
    | some f, some w, some ip, some fp, some lp => some ⟨f, ip, w, fp, lp⟩
    | _, _, _, _, _ => none
  | _ => none

def nsOf (s : String) : Option (Nat × Str) :=
  match s.splitOn "/" with
  | [f, ip] =>
    match f.toNat?, cps ip with
    | some f, some ip => some (f, ip)
    | _, _ => none
  | _ => none

def identIn (s : String) : Option Ident :=
  if s = "N" then some .none
  else if s.startsWith "n" then (s.drop 1).toString.toNat?.map .num
  else if s.startsWith "s" then (cps (s.drop 1).toString).map .name
  else none

def planOf (w : List String) : Option Plan :=
  match w with
  | [inc, exc, ns, p6, p4, d6, d4, udp, user, group, tmark, pid] =>
    match listOf inc subnetOf, listOf exc subnetOf, listOf ns nsOf, p6.toNat?, p4.toNat?, d6.toNat?,
          d4.toNat?, identIn user, identIn group, cps tmark, pid.toNat? with
    | some inc, some exc, some ns, some p6, some p4, some d6, some d4, some user, some group,
      some tmark, some pid =>
      some ⟨inc, exc, ns, p6, p4, d6, d4, udp == "1", user, group, tmark, pid⟩
    | _, _, _, _, _, _, _, _, _, _, _ => none
  | _ => none

def showFatal : Fatal → String
  | .expectedRoutes => "ROUTES" | .expectedRoute => "route" | .expectedRouteOrNslist => "routeOrNslist"
  | .expectedNslist => "NSLIST" | .expectedNs => "nslist" | .expectedNsOrPorts => "nslistOrPorts"
  | .expectedPorts => "PORTS" | .expected4Ports => "4ports" | .expectedGo => "GO"
  | .expectedCommand => "command"

def showErr : Err → String
  | .fatal f => "fatal:" ++ showFatal f
  | .valueError => "valueError"
  | .unicodeError => "unicodeError"
  | .assertion => "assertion"

def showOpt : Option Str → String
  | none => "N"
  | some s => "S" ++ hexTok s

def showList {α} (l : List α) (f : α → String) : String :=
  if l.isEmpty then "-" else ";".intercalate (l.map f)

def showSub (s : RSubnet) : String :=
  s!"{s.family}/{s.width}/{if s.exclude then 1 else 0}/{hexTok s.ip}/{s.fport}/{s.lport}"

def showCall (c : Call) : String :=
  s!"{c.port}:{c.dnsport}:{c.family}:{showList c.nslist fun e => s!"{e.1}/{hexTok e.2}"}:" ++
  s!"{showList c.subnets showSub}:{if c.udp then 1 else 0}:{showOpt c.user}:{showOpt c.group}:{hexTok c.tmark}"

def showMap (m : List (Str × Str)) : String :=
  showList m fun h => hexTok h.1 ++ "," ++ hexTok h.2

/-- the host map after each `HOST` line (what `rewrite_etc_hosts` was called with) -/
def showMaps (m : List (Str × Str)) : List (Str × Str) → String
  | [] => "."
  | h :: r => let m' := hostmapSet m h.1 h.2; showMap m' ++ "|" ++ showMaps m' r

def showOutcome : Outcome → String
  | .noInput => "noInput"
  | .before e => "before " ++ showErr e
  | .ran s hosts fin =>
    let cs := calls s
    s!"ran calls={if cs.isEmpty then "-" else "|".intercalate (cs.map showCall)} pid={s.pid} " ++
    s!"maps={showMaps [] hosts} " ++
    s!"end={match fin with | .eof => "eof" | .err e => showErr e}"

def step (s : Unit) (line : String) : Unit × List String :=
  match words line with
  | ["helper", hex] =>
    match bytesOfHex hex with
    | some b => (s, [showOutcome (helper b)])
    | none => (s, ["bad-op"])
  | "start" :: rest =>
    match planOf rest with
    | some p =>
      match render p with
      | some ls => (s, ["ok " ++ hexTok ls.flatten])
      | none => (s, ["unicodeEncodeError"])
    | none => (s, ["bad-op"])
  | ["host", n, i] =>
    match bytesOfHex n, bytesOfHex i with
    | some n, some i =>
      match renderHost n i with
      | some l => (s, ["ok " ++ hexTok l])
      | none => (s, ["assert"])
    | _, _ => (s, ["bad-op"])
  | ["#flush"] => (s, [])
  | _ => (s, ["bad-op"])

def main : IO Unit := runDriver step ()
