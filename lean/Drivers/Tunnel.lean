import SshuttleModel.Code.Tunnel
import SshuttleModel.Code.Loop
import SshuttleModel.Spec.Quiet
import SshuttleModel.Spec.Measure
open Sshuttle Sshuttle.Mux Sshuttle.Wrap Sshuttle.Tunnel

def digest (b : Bytes) : String :=
  let n := b.length
  s!"{n}:{hexTok (b.drop (n - 12))}"

def b01 (b : Bool) : String := if b then "1" else "0"

def showBufs (l : List Bytes) : String :=
  if l.isEmpty then "-" else ",".intercalate (l.map digest)

def showSockW (s : SockW) : String :=
  s!"sw({showBufs s.buf};r{b01 s.shutR}w{b01 s.shutW}c{b01 s.connecting}x{b01 s.exc})"

def showMuxW (w : MuxW) : String :=
  s!"mw({w.chan};{showBufs w.buf};r{b01 w.shutR}w{b01 w.shutW})"

def showProxy : Option ProxyS → String
  | none => "none"
  | some p => s!"{showSockW p.sw}{showMuxW p.mw}ok{b01 p.ok}"

def showESock (e : ESock) : String :=
  s!"p{e.pending.length}e{b01 e.eofIn}s{b01 e.sawShut}c{digest e.consumed}d{digest e.delivered}"

def showFrame (f : Frame) : String := s!"{f.chan}.{f.cmd}.{digest f.data}"

def showMux (m : MuxL) : String :=
  s!"n{m.out.length} full{m.fullness} too{b01 m.tooFull} last={match m.out.getLast? with | some f => showFrame f | none => "-"}"

def showWorld (w : World) : List String :=
  let hd := s!"died={match w.died with | some d => d | none => "-"} chani={w.chani} cm[{showMux w.cm}] sm[{showMux w.sm}] mu={worldMu w}"
  let fl := (List.range w.flows.length).zip w.flows |>.map fun (i, f) =>
    s!" f{i} ch{f.chan} C:{showProxy f.c} S:{showProxy f.s} app:{showESock f.app} dst:{showESock f.dst}"
  [hd ++ String.join fl]

def parseEnd (s : String) : Option End :=
  if s == "c" then some .client else if s == "s" then some .server else none

def parseConn (s : String) : Option ConnRes :=
  if s == "ok" then some .ok else
  match (s.drop 1).toString.splitOn ":" with
  | [e, so] => match e.toNat?, so.toNat? with
    | some e, some so => some (.errno e so)
    | _, _ => none
  | _ => none

def parseRecv (s : String) : Option RecvRes :=
  if s == "a" then some .eagain else if s.startsWith "x" then some .err else   -- x / x<errno>: a handled errno
  if s.startsWith "d" then (s.drop 1).toString.toNat?.map .data else none

def parseSend (s : String) : Option Wrap.SendRes :=
  if s == "a" then some .eagain else if s.startsWith "x" then some .err else if s == "p" then some .epipe else
  if s.startsWith "s" then (s.drop 1).toString.toNat?.map .sent else none

def initWorld (maxc buf chani : Nat) (occ : List Nat) : World :=
  let ping := bytesOfStr Generated.PING_INIT_PAYLOAD
  { cm := ({} : MuxL).send 0 Generated.CMD_PING ping,
    sm := (({} : MuxL).send 0 Generated.CMD_PING ping).send 0 Generated.CMD_ROUTES [],
    maxChan := maxc, bufsize := buf, chani := chani, extraOcc := occ }

def parseStep (ws : List String) : Option Step :=
  match ws with
  | ["cb", e, i, conn, recv, send, se] =>
    match parseEnd e, i.toNat?, parseConn conn, parseRecv recv, parseSend send with
    | some e, some i, some c, some r, some s =>
      some (.cb e i { conn := c, recv := r, send := s, shutErr := se == "1" })
    | _, _, _, _, _ => none
  | ["pre", e, i] => match parseEnd e, i.toNat? with
    | some e, some i => some (.pre e i) | _, _ => none
  | ["deliver", e, conn] => match parseEnd e, parseConn conn with
    | some e, some c => some (.deliver e c) | _, _ => none
  | ["rm", e] => (parseEnd e).map .removeDead
  | ["full", e] => (parseEnd e).map .checkFull
  | ["foreign", e, ch, cmd, hex] =>
    match parseEnd e, ch.toNat?, cmd.toNat?, bytesOfHex hex with
    | some e, some ch, some cmd, some d => some (.foreign e ⟨ch, cmd, d⟩)
    | _, _, _, _ => none
  | ["aw", i, hex] => match i.toNat?, bytesOfHex hex with
    | some i, some b => some (.appWrite i b) | _, _ => none
  | ["ae", i] => i.toNat?.map .appEof
  | ["dw", i, hex] => match i.toNat?, bytesOfHex hex with
    | some i, some b => some (.dstWrite i b) | _, _ => none
  | ["de", i] => i.toNat?.map .dstEof
  | _ => none

def showWants (w : World) (e : End) (i : Nat) : String :=
  match w.flows[i]? with
  | none => "wants=none"
  | some f =>
    match (match e with | .client => f.c | .server => f.s), (match e with | .client => w.cm | .server => w.sm) with
    | some p, m => let (a, b, c) := p.wants m; s!"wants={b01 a}{b01 b}{b01 c}"
    | none, _ => "wants=none"

def step (w : World) (line : String) : World × List String :=
  match words line with
  | "init" :: maxc :: buf :: chani :: occ =>
    match maxc.toNat?, buf.toNat?, chani.toNat?, occ.mapM String.toNat? with
    | some m, some b, some c, some occ => let w := initWorld m b c occ; (w, showWorld w)
    | _, _, _, _ => (w, ["bad-op"])
  | ["accept", hex] =>
    -- the CONNECT payload is supplied (its content is C05's business); replace the placeholder
    match bytesOfHex hex with
    | none => (w, ["bad-op"])
    | some d =>
      let w1 := w.step .accept
      let w2 := if w1.flows.length > w.flows.length then
        match w1.cm.out.reverse with
        | f :: rest => { w1 with cm := { w1.cm with out := (({ f with data := d } : Frame) :: rest).reverse,
                                                    fullness := w1.cm.fullness + d.length } }
        | [] => w1
        else w1
      (w2, showWorld w2)
  | ["round", e, k, ready, conn, recv, send, se] =>
    -- one whole pass of the select loop: the model decides itself which callbacks are made.
    -- ready = "auto" (the environment as it is) or "-" / "i,j,…" (exactly these flows' sockets are reported
    -- readable and writable, the tunnel's write file is not; the others answer like a socket with nothing to read)
    match parseEnd e, k.toNat?, parseConn conn, parseRecv recv, parseSend send with
    | some e, some k, some c, some r, some s =>
      let io : CbIo := { conn := c, recv := r, send := s, shutErr := se == "1" }
      let quietIo : CbIo := { conn := .ok, recv := .eagain, send := .sent 65536, shutErr := false }
      let rl : Option (List Nat) := if ready == "auto" then none else
        some ((ready.splitOn ",").filterMap String.toNat?)
      let sel : Sel := match rl with
        | none => w.truthfulSel e
        | some l => { sockR := fun i => l.contains i, sockW := fun i => l.contains i, muxW := false }
      let ios : Nat → CbIo := match rl with
        | none => fun _ => io
        | some l => fun i => if l.contains i then io else quietIo
      let w2 := w.run (roundHead e w.flows.length)
      -- callbacks actually made: the pass's callback steps that find a handler
      let (w1, n) := (roundTail w2 e k c sel ios).foldl (fun (acc : World × Nat) st =>
        let made := match st with
          | .cb e' i _ => (match acc.1.flows[i]? with
              | some f => if acc.1.died.isNone && (handlerAt e' f).isSome then 1 else 0
              | none => 0)
          | _ => 0
        (acc.1.step st, acc.2 + made)) (w2, 0)
      (w1, (showWorld w1).map (· ++ s!" wants=none cbs={n}"))
    | _, _, _, _, _ => (w, ["bad-op"])
  | ["#flush"] => (w, [])
  | ["quiet"] => (w, [if quietB w then "quiet=1" else "quiet=0"])
  | "q" :: ws =>
    -- quiet: execute, print nothing
    match parseStep ws with
    | none => (w, ["bad-op"])
    | some st => (w.step st, [])
  | ws =>
    match parseStep ws with
    | none => (w, ["bad-op"])
    | some st =>
      let w1 := w.step st
      match st with
      | .pre e i => (w1, (showWorld w1).map (· ++ " " ++ showWants w1 e i))
      | _ => (w1, showWorld w1)

def main : IO Unit := runDriver step (initWorld Generated.MAX_CHANNEL Generated.LATENCY_BUFFER_SIZE 0 [])
